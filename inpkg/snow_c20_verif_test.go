package snow

// C20 / C21 harness (in-package: it needs the async accept wait group, the verified map and
// the package's TestBlock). Overlaid into snow by /verif/check; never part of /repo.
//
// A deterministic model of the snowman engine drives the real snow.VM over a logging Chain:
// build, parse-new (valid / invalid child of any live block), parse-known, set-preference,
// accept (asynchronously queued, siblings rejected transitively), drain (wait for the async
// accepter), and for C21 start-state-sync / finish-state-sync. Every event sequence up to a
// depth bound is explored breadth-first (fresh VM, history replayed, canonical-state
// deduplication on the model state); selected sequences are additionally run under the
// controlled scheduler (instrumented snow package) over all interleavings of the engine
// thread and the async accepter.

import (
	"context"
	"encoding/json"
	"errors"
	"fmt"
	"os"
	"path/filepath"
	"sort"
	"strings"
	"sync"
	"testing"
	"unsafe"

	"github.com/ava-labs/avalanchego/database/memdb"
	"github.com/ava-labs/avalanchego/ids"
	"github.com/ava-labs/avalanchego/snow/engine/common"
	"github.com/ava-labs/avalanchego/snow/engine/enginetest"
	"github.com/ava-labs/avalanchego/snow/engine/snowman/block"
	"github.com/ava-labs/avalanchego/snow/snowtest"
	"github.com/prometheus/client_golang/prometheus"

	"github.com/ava-labs/hypersdk/chainindex"
	"github.com/ava-labs/hypersdk/event"
	"github.com/ava-labs/hypersdk/internal/vshim/evid"
	"github.com/ava-labs/hypersdk/internal/vshim/seqx"
	"github.com/ava-labs/hypersdk/internal/vshim/vsched"
)

type vStateful = StatefulBlock[*TestBlock, *TestBlock, *TestBlock]

// vChain logs every callback and checks the lifecycle contract of the Chain interface.
type vChain struct {
	mu                 sync.Mutex
	genesis            *TestBlock
	ready              bool
	violation          []string
	verifyLog          []ids.ID
	acceptLog          []ids.ID
	names              map[ids.ID]string
	counter            int
	strictParent       bool
	allowReverify      bool // after a state-sync hand-over processing blocks are executed again
	lastAcceptedHeight uint64
}

func (c *vChain) fail(format string, a ...any) {
	c.violation = append(c.violation, fmt.Sprintf(format, a...))
}

func (c *vChain) name(id ids.ID) string {
	if n, ok := c.names[id]; ok {
		return n
	}
	return id.String()[:6]
}

func (c *vChain) Initialize(ctx context.Context, in ChainInput, _ *VM[*TestBlock, *TestBlock, *TestBlock]) (ChainIndex[*TestBlock], *TestBlock, *TestBlock, bool, error) {
	ci, err := chainindex.New[*TestBlock](ctx, in.SnowCtx.Log, prometheus.NewRegistry(), chainindex.NewDefaultConfig(), c, memdb.New())
	if err != nil {
		return nil, nil, nil, false, err
	}
	if err := ci.UpdateLastAccepted(ctx, c.genesis); err != nil {
		return nil, nil, nil, false, err
	}
	return &vIndex{ci}, c.genesis, c.genesis, c.ready, nil
}

// vIndex makes every access to the chain index a visible step of the controlled scheduler (the
// index and its database synchronise with native locks the scheduler does not see), so another
// thread can be scheduled between the VM's own bookkeeping and the index write / read.
type vIndex struct{ ix ChainIndex[*TestBlock] }

func (v *vIndex) touch() { vsched.Touch(unsafe.Pointer(v)) }
func (v *vIndex) UpdateLastAccepted(ctx context.Context, b *TestBlock) error {
	v.touch()
	return v.ix.UpdateLastAccepted(ctx, b)
}
func (v *vIndex) GetLastAcceptedHeight(ctx context.Context) (uint64, error) {
	v.touch()
	return v.ix.GetLastAcceptedHeight(ctx)
}
func (v *vIndex) GetBlock(ctx context.Context, id ids.ID) (*TestBlock, error) {
	v.touch()
	return v.ix.GetBlock(ctx, id)
}
func (v *vIndex) GetBlockIDAtHeight(ctx context.Context, h uint64) (ids.ID, error) {
	v.touch()
	return v.ix.GetBlockIDAtHeight(ctx, h)
}
func (v *vIndex) GetBlockIDHeight(ctx context.Context, id ids.ID) (uint64, error) {
	v.touch()
	return v.ix.GetBlockIDHeight(ctx, id)
}
func (v *vIndex) GetBlockByHeight(ctx context.Context, h uint64) (*TestBlock, error) {
	v.touch()
	return v.ix.GetBlockByHeight(ctx, h)
}

func (*vChain) SetConsensusIndex(*ConsensusIndex[*TestBlock, *TestBlock, *TestBlock]) {}

func (c *vChain) BuildBlock(_ context.Context, bctx *block.Context, parent *TestBlock) (*TestBlock, *TestBlock, error) {
	c.mu.Lock()
	defer c.mu.Unlock()
	if parent == nil || !parent.outputPopulated {
		c.fail("BuildBlock on a parent that was never verified")
		return nil, nil, fmt.Errorf("bad parent")
	}
	c.counter++
	b := &TestBlock{PrntID: parent.GetID(), Tmstmp: parent.GetTimestamp() + 1, Hght: parent.GetHeight() + 1, RandomData: []byte{0xb0, byte(c.counter)}, BlockContext: bctx}
	b.outputPopulated = true
	return b, b, nil
}

func (*vChain) ParseBlock(_ context.Context, bytes []byte) (*TestBlock, error) {
	return NewTestBlockFromBytes(bytes)
}

func (c *vChain) VerifyBlock(_ context.Context, parent *TestBlock, blk *TestBlock) (*TestBlock, error) {
	c.mu.Lock()
	defer c.mu.Unlock()
	if parent == nil || !parent.outputPopulated {
		c.fail("VerifyBlock(%s): the parent was neither verified nor accepted", c.name(blk.GetID()))
		return nil, fmt.Errorf("bad parent")
	}
	if blk.Invalid {
		return nil, errVerifyInvalidBlock
	}
	// (executing a block a second time is wasteful but not excluded by the statement; what must be
	// one to one are the verified notifications, checked in final())
	blk.outputPopulated = true
	c.verifyLog = append(c.verifyLog, blk.GetID())
	return blk, nil
}

func (c *vChain) AcceptBlock(_ context.Context, acceptedParent *TestBlock, verified *TestBlock) (*TestBlock, error) {
	c.mu.Lock()
	defer c.mu.Unlock()
	switch {
	case verified == nil || !verified.outputPopulated:
		c.fail("AcceptBlock: the block was never verified")
		return nil, fmt.Errorf("unverified")
	case acceptedParent == nil:
		// The property does not speak about the acceptedParent argument. snow looks the parent up
		// in its accepted-block cache; if the cache is smaller than the accept backlog the parent
		// is re-read from the index without its accepted form. Only demanded when the cache is
		// larger than the accept queue (the configuration the package is designed for).
		if c.strictParent {
			c.fail("AcceptBlock(%s): no accepted parent was supplied", c.name(verified.GetID()))
		}
	case !acceptedParent.acceptedPopulated:
		c.fail("AcceptBlock(%s): the parent %s has not been accepted", c.name(verified.GetID()), c.name(acceptedParent.GetID()))
	case acceptedParent.GetID() != verified.GetParent():
		c.fail("AcceptBlock(%s): supplied parent %s is not the block's parent", c.name(verified.GetID()), c.name(acceptedParent.GetID()))
	}
	if verified.acceptedPopulated {
		c.fail("AcceptBlock(%s): accepted twice", c.name(verified.GetID()))
	}
	if verified.GetHeight() != c.lastAcceptedHeight+1 {
		c.fail("AcceptBlock(%s): height %d accepted after height %d (not in height order)", c.name(verified.GetID()), verified.GetHeight(), c.lastAcceptedHeight)
	}
	c.lastAcceptedHeight = verified.GetHeight()
	verified.acceptedPopulated = true
	c.acceptLog = append(c.acceptLog, verified.GetID())
	return verified, nil
}

// ---- engine model

type mBlock struct {
	sb       *vStateful
	tb       *TestBlock
	num      int
	parent   int // model index; -1 for genesis
	status   int // 0 processing, 1 accepted, 2 rejected
	invalid  bool
	built    bool
	verified bool // the engine's Verify call returned nil
	vacuous  bool // verified while the VM was not ready (state sync)
	preReady bool // accepted while the VM was not ready
	queued   bool // accepted in normal operation (handed to the async accepter)
	drained  bool // a drain event happened after it was queued
}

type vEngine struct {
	t            *testing.T
	chain        *vChain
	vm           *SnowVM[*TestBlock, *TestBlock, *TestBlock]
	blocks       []*mBlock // blocks[0] = genesis
	lastAcc      int
	pref         int
	notifV       []ids.ID
	notifA       []ids.ID
	notifR       []ids.ID
	notifPreA    []ids.ID
	notifPreR    []ids.ID
	nmu          sync.Mutex
	syncing      bool
	finished     bool
	syncTarget   int
	finishTarget int
}

func newEngine(t *testing.T, cacheSize int) *vEngine {
	ctx := context.Background()
	gen := &TestBlock{outputPopulated: true, acceptedPopulated: true}
	ch := &vChain{genesis: gen, ready: true, names: map[ids.ID]string{}, strictParent: cacheSize > acceptedQueueSize}
	vm := NewSnowVM[*TestBlock, *TestBlock, *TestBlock](testVersion, ch)
	e := &vEngine{t: t, chain: ch, vm: vm}
	rec := func(dst *[]ids.ID) func(context.Context, *TestBlock) error {
		return func(_ context.Context, b *TestBlock) error {
			e.nmu.Lock()
			*dst = append(*dst, b.GetID())
			e.nmu.Unlock()
			return nil
		}
	}
	vm.AddVerifiedSub(event.SubscriptionFunc[*TestBlock]{NotifyF: rec(&e.notifV)})
	vm.AddAcceptedSub(event.SubscriptionFunc[*TestBlock]{NotifyF: rec(&e.notifA)})
	vm.AddRejectedSub(event.SubscriptionFunc[*TestBlock]{NotifyF: rec(&e.notifR)})
	vm.AddPreReadyAcceptedSub(event.SubscriptionFunc[*TestBlock]{NotifyF: rec(&e.notifPreA)})
	vm.AddPreRejectedSub(event.SubscriptionFunc[*TestBlock]{NotifyF: rec(&e.notifPreR)})
	snowCtx := snowtest.Context(t, ids.ID{0xc2})
	snowCtx.ChainDataDir = c20Dir
	cfg, _ := json.Marshal(map[string]any{SnowVMConfigKey: VMConfig{ParsedBlockCacheSize: 2, AcceptedBlockWindowCache: cacheSize}})
	toEngine := make(chan common.Message, 1)
	if err := vm.Initialize(ctx, snowCtx, nil, nil, nil, cfg, toEngine, nil, &enginetest.Sender{T: t}); err != nil {
		t.Fatalf("Initialize: %v", err)
	}
	g := vm.LastAcceptedBlock(ctx)
	e.blocks = []*mBlock{{sb: g, tb: gen, parent: -1, status: 1, verified: true}}
	ch.names[gen.GetID()] = "genesis"
	return e
}

var c20Dir string

func (e *vEngine) live(i int) bool { return e.blocks[i].status == 0 }

func (e *vEngine) descendsFrom(i, anc int) bool {
	for x := e.blocks[i].parent; x >= 0; x = e.blocks[x].parent {
		if x == anc {
			return true
		}
	}
	return false
}

type c20Op struct {
	kind string
	a    int
	flag bool
}

func (o c20Op) String() string {
	switch o.kind {
	case "parse":
		if o.flag {
			return fmt.Sprintf("parse+verify(new INVALID child of b%d)", o.a)
		}
		return fmt.Sprintf("parse+verify(new child of b%d)", o.a)
	case "parsectx":
		return fmt.Sprintf("parse(new child of b%d); verify with a mismatched P-chain context (must fail); verify", o.a)
	case "buildctx":
		return "build; verify with a mismatched P-chain context (must fail); verify"
	case "known":
		return fmt.Sprintf("parse(known b%d)", o.a)
	case "pref":
		return fmt.Sprintf("set-preference(b%d)", o.a)
	case "accept":
		return fmt.Sprintf("accept(b%d)", o.a)
	case "acceptr":
		return fmt.Sprintf("accept(b%d) while another thread looks the block up by id", o.a)
	case "finish":
		return fmt.Sprintf("finish-state-sync(target b%d)", o.a)
	}
	return o.kind
}

func encOp(o c20Op) int {
	k := map[string]int{"build": 0, "parse": 1, "known": 2, "pref": 3, "accept": 4, "drain": 5, "startsync": 6, "finish": 7, "parsectx": 8, "buildctx": 9, "acceptr": 10}[o.kind]
	f := 0
	if o.flag {
		f = 1
	}
	return k*100 + o.a*2 + f
}

func decOp(x int) c20Op {
	kinds := []string{"build", "parse", "known", "pref", "accept", "drain", "startsync", "finish", "parsectx", "buildctx", "acceptr"}
	return c20Op{kind: kinds[x/100], a: (x % 100) / 2, flag: x%2 == 1}
}

// apply executes one engine event on the real VM and returns a violation (key, what).
func (e *vEngine) apply(o c20Op) (string, string) {
	ctx := context.Background()
	add := func(sb *vStateful, parent int, invalid, built bool) *mBlock {
		m := &mBlock{sb: sb, tb: sb.Input, num: len(e.blocks), parent: parent, invalid: invalid, built: built}
		e.chain.mu.Lock()
		e.chain.names[sb.ID()] = fmt.Sprintf("b%d", m.num)
		e.chain.mu.Unlock()
		e.blocks = append(e.blocks, m)
		return m
	}
	badCtx := &block.Context{PChainHeight: 7}
	if o.kind == "parsectx" {
		o.kind, o.flag = "parse", false
	} else if o.kind == "buildctx" {
		o.kind = "build"
	} else {
		badCtx = nil
	}
	withReader := o.kind == "acceptr"
	if withReader {
		o.kind = "accept"
	}
	switch o.kind {
	case "build":
		sb, err := e.vm.VM.BuildBlock(ctx)
		if err != nil {
			return "build-fails", fmt.Sprintf("BuildBlock on preference b%d: %v", e.pref, err)
		}
		if sb.Parent() != e.blocks[e.pref].sb.ID() {
			return "build-wrong-parent", "built block does not extend the preference"
		}
		m := add(sb, e.pref, false, true)
		if badCtx != nil {
			if err := sb.VerifyWithContext(ctx, badCtx); !errors.Is(err, errMismatchedPChainContext) {
				return "mismatched-pchain-context-not-rejected", fmt.Sprintf("VerifyWithContext(height 7) of built b%d (no inner context): %v", m.num, err)
			}
		}
		if err := sb.Verify(ctx); err != nil {
			return "built-block-fails-verify", err.Error()
		}
		m.verified = true
		m.vacuous = e.syncing && !e.finished
		_ = e.vm.SetPreference(ctx, sb.ID())
		e.pref = m.num
	case "parse":
		p := e.blocks[o.a]
		tb := &TestBlock{PrntID: p.sb.ID(), Tmstmp: p.tb.GetTimestamp() + 1, Hght: p.tb.GetHeight() + 1, RandomData: []byte{0xa0, byte(len(e.blocks))}, Invalid: o.flag}
		sb, err := e.vm.VM.ParseBlock(ctx, tb.GetBytes())
		if err != nil {
			return "parse-fails", err.Error()
		}
		if sb.ID() != tb.GetID() {
			return "parse-wrong-id", "parsed block id differs"
		}
		m := add(sb, o.a, o.flag, false)
		if badCtx != nil {
			if err := sb.VerifyWithContext(ctx, badCtx); !errors.Is(err, errMismatchedPChainContext) {
				return "mismatched-pchain-context-not-rejected", fmt.Sprintf("VerifyWithContext(height 7) of parsed b%d (no inner context): %v", m.num, err)
			}
		}
		err = sb.Verify(ctx)
		vacuous := e.syncing && !e.finished
		switch {
		case vacuous && err != nil:
			return "verify-fails-during-sync", err.Error()
		case vacuous:
			m.verified, m.vacuous = true, true
		case o.flag && err == nil:
			return "invalid-block-verified", fmt.Sprintf("Verify of invalid b%d returned nil", m.num)
		case o.flag:
			m.status = 2 // never enters consensus
		case p.vacuous && !p.verifiedForReal(e):
			// child of a block that failed / was never really verified: engine would get an error
			if err == nil {
				return "child-of-unverified-parent-verified", fmt.Sprintf("b%d verified although its parent b%d never was", m.num, p.num)
			}
			m.status = 2
		case err != nil:
			return "valid-block-fails-verify", fmt.Sprintf("b%d: %v", m.num, err)
		default:
			m.verified = true
		}
	case "known":
		m := e.blocks[o.a]
		sb, err := e.vm.VM.ParseBlock(ctx, m.sb.Bytes())
		if err != nil {
			return "parse-known-fails", err.Error()
		}
		if sb.ID() != m.sb.ID() || sb.verified != m.sb.verified {
			// (the identity of the wrapper object is an implementation matter; what the engine relies on is
			// that the block it gets back is the processing block with its verification status)
			return "parse-known-loses-status", fmt.Sprintf("ParseBlock of processing b%d returned a block with id %s verified=%v (the processing block has verified=%v)", m.num, sb.ID(), sb.verified, m.sb.verified)
		}
	case "pref":
		_ = e.vm.SetPreference(ctx, e.blocks[o.a].sb.ID())
		e.pref = o.a
	case "accept":
		m := e.blocks[o.a]
		var rd chan string
		if withReader {
			// an API / p2p thread (no consensus lock) asks for the block while it is being accepted
			rd = vsched.Make[string](1)
			vsched.Go(func() {
				res := ""
				if blk, err := e.vm.VM.GetBlock(ctx, m.sb.ID()); err != nil {
					res = err.Error()
				} else if blk.ID() != m.sb.ID() {
					res = "a different block was returned"
				}
				vsched.Send(rd, res)
			})
		}
		if err := m.sb.Accept(ctx); err != nil {
			return "accept-fails", fmt.Sprintf("Accept(b%d): %v", m.num, err)
		}
		if rd != nil {
			if res := vsched.Recv(rd); res != "" {
				return "verified-block-not-found-while-being-accepted", fmt.Sprintf("GetBlock(b%d) from a second thread during Accept(b%d): %s", m.num, m.num, res)
			}
		}
		m.status = 1
		e.lastAcc = m.num
		if e.syncing && !e.finished {
			m.preReady = true
		} else {
			m.queued = true
		}
		// reject every processing block that does not descend from the accepted one
		var rej []int
		for i := range e.blocks {
			if e.live(i) && !e.descendsFrom(i, m.num) {
				rej = append(rej, i)
			}
		}
		for _, i := range rej { // parents before children (creation order)
			if err := e.blocks[i].sb.Reject(ctx); err != nil {
				return "reject-fails", err.Error()
			}
			e.blocks[i].status = 2
		}
		if !e.live(e.pref) && e.pref != e.lastAcc {
			_ = e.vm.SetPreference(ctx, m.sb.ID())
			e.pref = m.num
		}
	case "drain":
		e.vm.acceptedQueueBlocksProcessedWg.Wait()
		for _, m := range e.blocks {
			if m.queued {
				m.drained = true
			}
		}
	case "startsync":
		// state sync starts from the current tip as target (blocks accepted later move the tip)
		tgt := e.blocks[e.lastAcc]
		if err := e.vm.StartStateSync(ctx, tgt.tb); err != nil {
			return "start-sync-fails", err.Error()
		}
		e.syncing, e.syncTarget = true, e.lastAcc
	case "finish":
		tgt := e.blocks[o.a]
		e.vm.snowCtx.Lock.Lock()
		tgt.tb.outputPopulated, tgt.tb.acceptedPopulated = true, true
		e.chain.mu.Lock()
		e.chain.lastAcceptedHeight = tgt.tb.GetHeight()
		e.chain.allowReverify = true
		e.chain.verifyLog, e.chain.acceptLog = nil, nil
		e.chain.mu.Unlock()
		e.nmu.Lock()
		e.notifV, e.notifA = nil, nil
		e.nmu.Unlock()
		err := e.vm.FinishStateSync(ctx, tgt.tb, tgt.tb, tgt.tb)
		e.vm.snowCtx.Lock.Unlock()
		if err != nil {
			return "finish-sync-fails", err.Error()
		}
		e.finished = true
		e.finishTarget = o.a
	}
	return "", ""
}

// verifiedForReal: the block has a real execution output. Blocks accepted during the sync are
// executed again at the hand-over from a freshly parsed copy (the index serves bytes), so the
// object the engine holds does not show it: after the hand-over every accepted block counts.
func (m *mBlock) verifiedForReal(e *vEngine) bool {
	return m.tb.outputPopulated || (e.finished && m.status == 1)
}

// lookups checks VM.GetBlock / GetBlockByHeight / LastAccepted against the model.
func (e *vEngine) lookups() (string, string) {
	ctx := context.Background()
	la, _ := e.vm.LastAccepted(ctx)
	if la != e.blocks[e.lastAcc].sb.ID() {
		return "last-accepted-wrong", fmt.Sprintf("LastAccepted is not b%d", e.lastAcc)
	}
	for _, m := range e.blocks {
		switch m.status {
		case 1:
			sb, err := e.vm.VM.GetBlock(ctx, m.sb.ID())
			if err != nil || sb.ID() != m.sb.ID() {
				return "accepted-block-lookup-by-id", fmt.Sprintf("GetBlock(accepted b%d) = %v", m.num, err)
			}
			hb, err := e.vm.VM.GetBlockByHeight(ctx, m.tb.GetHeight())
			if err != nil || hb.ID() != m.sb.ID() {
				return "accepted-block-lookup-by-height", fmt.Sprintf("GetBlockByHeight(%d) does not return accepted b%d (%v)", m.tb.GetHeight(), m.num, err)
			}
			id, err := e.vm.VM.GetBlockIDAtHeight(ctx, m.tb.GetHeight())
			if err != nil || id != m.sb.ID() {
				return "accepted-block-id-at-height", fmt.Sprintf("GetBlockIDAtHeight(%d) != b%d (%v)", m.tb.GetHeight(), m.num, err)
			}
		case 0:
			if !m.verified {
				continue
			}
			sb, err := e.vm.VM.GetBlock(ctx, m.sb.ID())
			if err != nil || sb != m.sb {
				return "processing-block-lookup", fmt.Sprintf("GetBlock(processing b%d) = %v, same object %v", m.num, err, sb == m.sb)
			}
		}
	}
	return "", ""
}

// final compares the callback and notification logs with the engine's decisions (call after drain).
func (e *vEngine) final() (string, string) {
	e.chain.mu.Lock()
	defer e.chain.mu.Unlock()
	e.nmu.Lock()
	defer e.nmu.Unlock()
	if len(e.chain.violation) > 0 {
		return "chain-contract", e.chain.violation[0]
	}
	names := func(l []ids.ID) string {
		var s []string
		for _, id := range l {
			s = append(s, e.chain.name(id))
		}
		return "[" + strings.Join(s, " ") + "]"
	}
	// accepted blocks in decision order (ready mode: chain accept + accepted notification)
	var wantAcc, wantPreAcc []ids.ID
	order := make([]*mBlock, 0)
	for _, m := range e.blocks[1:] {
		if m.status == 1 {
			order = append(order, m)
		}
	}
	sort.Slice(order, func(i, j int) bool { return order[i].tb.GetHeight() < order[j].tb.GetHeight() })
	for _, m := range order {
		wantAcc = append(wantAcc, m.sb.ID())
	}
	_ = wantPreAcc
	if !e.syncing {
		if names(e.chain.acceptLog) != names(wantAcc) {
			return "accept-callbacks-differ", fmt.Sprintf("Chain.AcceptBlock calls %s, engine accepted %s", names(e.chain.acceptLog), names(wantAcc))
		}
		// the startup notification of the last accepted block (genesis) comes first
		gotA := e.notifA
		if len(gotA) > 0 && gotA[0] == e.blocks[0].sb.ID() {
			gotA = gotA[1:]
		}
		if names(gotA) != names(wantAcc) {
			return "accepted-notifications-differ", fmt.Sprintf("accepted notifications %s, engine accepted %s", names(gotA), names(wantAcc))
		}
		// verified notifications: one per block whose Verify the engine saw succeed
		var wantV []string
		for _, m := range e.blocks[1:] {
			if m.verified {
				wantV = append(wantV, e.chain.name(m.sb.ID()))
			}
		}
		var gotV []string
		for _, id := range e.notifV {
			gotV = append(gotV, e.chain.name(id))
		}
		sort.Strings(wantV)
		sort.Strings(gotV)
		if strings.Join(gotV, " ") != strings.Join(wantV, " ") {
			return "verified-notifications-differ", fmt.Sprintf("verified notifications [%s], blocks the engine verified [%s]", strings.Join(gotV, " "), strings.Join(wantV, " "))
		}
		var wantR, gotR []string
		for _, m := range e.blocks[1:] {
			if m.status == 2 && m.verified {
				wantR = append(wantR, e.chain.name(m.sb.ID()))
			}
		}
		for _, id := range e.notifR {
			gotR = append(gotR, e.chain.name(id))
		}
		sort.Strings(wantR)
		sort.Strings(gotR)
		if strings.Join(gotR, " ") != strings.Join(wantR, " ") {
			return "rejected-notifications-differ", fmt.Sprintf("rejected notifications [%s], blocks the engine rejected [%s]", strings.Join(gotR, " "), strings.Join(wantR, " "))
		}
	}
	return "", ""
}

// validAncestry reports whether block i and all its ancestors above the last accepted block
// are valid blocks (so that re-verification after state sync must succeed for it).
func (e *vEngine) validAncestry(i int) bool {
	for x := i; x >= 0 && e.blocks[x].status != 1; x = e.blocks[x].parent {
		if e.blocks[x].invalid {
			return false
		}
	}
	return true
}

// syncOracle is the C21 oracle, evaluated after every event once state sync has started.
func (e *vEngine) syncOracle() (string, string) {
	ctx := context.Background()
	_, herr := e.vm.HealthCheck(ctx)
	if !e.finished {
		if herr == nil {
			return "healthy-during-state-sync", "HealthCheck reports healthy while the VM is not ready"
		}
		return "", ""
	}
	e.chain.mu.Lock()
	defer e.chain.mu.Unlock()
	if len(e.chain.violation) > 0 {
		return "chain-contract", e.chain.violation[0]
	}
	// (1) last accepted state = executed chain up to the tip
	la, err := e.vm.GetConsensusIndex().GetLastAccepted(ctx)
	tipModel := e.blocks[e.lastAcc]
	if err != nil || la == nil || la.GetID() != tipModel.sb.ID() {
		// blocks accepted after the hand-over are processed asynchronously: compare after a drain only
		pending := false
		for _, m := range e.blocks {
			if m.queued && !m.drained {
				pending = true
			}
		}
		if !pending {
			return "last-accepted-state-wrong", fmt.Sprintf("ConsensusIndex.GetLastAccepted = %v,%v; the engine's tip is b%d", la, err, e.lastAcc)
		}
	}
	// (2) every still-processing block was re-verified iff its ancestry is valid; (3) health
	unresolved := 0
	for i, m := range e.blocks {
		if m.status != 0 || !m.verified {
			continue
		}
		want := e.validAncestry(i)
		if m.sb.verified != want {
			return "processing-block-reverification", fmt.Sprintf("processing b%d (invalid=%v, valid ancestry=%v) has verified=%v after the hand-over", m.num, m.invalid, want, m.sb.verified)
		}
		if !want {
			unresolved++
		}
	}
	if (unresolved > 0) != (herr != nil) {
		return "health-check-wrong", fmt.Sprintf("%d processing block(s) failed re-verification and are not yet rejected, HealthCheck error = %v", unresolved, herr)
	}
	return "", ""
}

// reprocessOracle checks, right after finish, that exactly the blocks between the sync target and the
// tip were executed and accepted once each, in height order.
func (e *vEngine) reprocessOracle() (string, string) {
	e.chain.mu.Lock()
	defer e.chain.mu.Unlock()
	var want []uint64
	for h := e.blocks[e.finishTarget].tb.GetHeight() + 1; h <= e.blocks[e.lastAcc].tb.GetHeight(); h++ {
		want = append(want, h)
	}
	if len(e.chain.acceptLog) != len(want) {
		return "reprocess-accept-count", fmt.Sprintf("finishing at b%d with tip b%d: %d AcceptBlock calls, expected %d", e.finishTarget, e.lastAcc, len(e.chain.acceptLog), len(want))
	}
	// processing blocks with valid ancestry are verified exactly once, plus one verify per reprocessed block
	wantVerify := len(want)
	for i, m := range e.blocks {
		if m.status == 0 && m.verified && e.validAncestry(i) {
			wantVerify++
		}
	}
	if len(e.chain.verifyLog) < wantVerify { // more than once each is wasteful, not a violation of the statement
		return "reverify-count", fmt.Sprintf("finishing at b%d with tip b%d: %d successful VerifyBlock calls, expected at least %d (reprocessed blocks + processing blocks with valid ancestry)", e.finishTarget, e.lastAcc, len(e.chain.verifyLog), wantVerify)
	}
	return "", ""
}

func (e *vEngine) enabled(maxBlocks int, sync bool) []int {
	var en []int
	n := len(e.blocks) - 1
	lag := 0
	for _, m := range e.blocks {
		if m.queued && !m.drained {
			lag++
		}
	}
	if n < maxBlocks {
		if !(e.syncing && !e.finished) && e.blocks[e.pref].sb.verified { // the builder needs a verified preference
			en = append(en, encOp(c20Op{kind: "build"}))
			if !e.syncing {
				en = append(en, encOp(c20Op{kind: "buildctx"}))
			}
		}
		for i, m := range e.blocks {
			if i == e.lastAcc || (e.live(i) && m.verified) {
				en = append(en, encOp(c20Op{kind: "parse", a: i}))
				en = append(en, encOp(c20Op{kind: "parse", a: i, flag: true}))
				if !e.syncing && i == e.pref {
					// a failed verification (mismatched P-chain context) followed by the real one
					en = append(en, encOp(c20Op{kind: "parsectx", a: i}))
				}
			}
		}
	}
	for i, m := range e.blocks {
		if e.live(i) && m.verified {
			en = append(en, encOp(c20Op{kind: "known", a: i}))
			if i != e.pref {
				en = append(en, encOp(c20Op{kind: "pref", a: i}))
			}
			if m.parent == e.lastAcc && lag < 3 && !m.invalid && (!e.finished || m.sb.verified) {
				en = append(en, encOp(c20Op{kind: "accept", a: i}))
			}
		}
	}
	if lag > 0 {
		en = append(en, encOp(c20Op{kind: "drain"}))
	}
	if sync && !e.syncing && lag == 0 && len(e.blocks) > 1 {
		en = append(en, encOp(c20Op{kind: "startsync"}))
	}
	if e.syncing && !e.finished {
		for i, m := range e.blocks {
			if m.status == 1 && i >= e.syncTarget && i != 0 && (i == e.lastAcc || e.descendsFrom(e.lastAcc, i)) {
				en = append(en, encOp(c20Op{kind: "finish", a: i}))
			}
		}
	}
	return en
}

func (e *vEngine) key() string {
	var s []string
	for _, m := range e.blocks {
		s = append(s, fmt.Sprintf("%d<%d:%d:%v:%v:%v:%v", m.num, m.parent, m.status, m.invalid, m.built, m.verified, m.tb.acceptedPopulated))
	}
	return fmt.Sprintf("%s|p%d|la%d|s%v%v%d", strings.Join(s, ";"), e.pref, e.lastAcc, e.syncing, e.finished, e.syncTarget)
}

func c20Hist(h []int) []string {
	var o []string
	for _, x := range h {
		o = append(o, decOp(x).String())
	}
	return o
}

// c20Run replays a history on a fresh VM; returns the engine and the first violation.
func c20Run(t *testing.T, h []int, cache int) (*vEngine, string, string) {
	e := newEngine(t, cache)
	for i, x := range h {
		k, w := e.apply(decOp(x))
		if k == "" {
			k, w = e.lookups()
		}
		if k == "" && e.syncing {
			if decOp(x).kind == "finish" {
				k, w = e.reprocessOracle()
			}
			if k == "" {
				k, w = e.syncOracle()
			}
		}
		if k != "" {
			return e, k, fmt.Sprintf("after %v (step %d): %s", c20Hist(h[:i+1]), i, w)
		}
	}
	return e, "", ""
}

func c20Shutdown(e *vEngine) {
	e.vm.acceptedQueueBlocksProcessedWg.Wait()
	_ = e.vm.Shutdown(context.Background())
}

func TestVerifC20(t *testing.T) {
	r := evid.Start("C20", "model_checking")
	c20Dir = t.TempDir()
	evid.CleanupDir(filepath.Dir(c20Dir))
	maxBlocks := evid.Pick(r, 4, 5)
	depth := evid.Pick(r, 7, 9)
	exec := func(prop string, cache int, sync bool) func(h []int) seqx.Result {
		return func(h []int) (res seqx.Result) {
			defer func() {
				if p := recover(); p != nil {
					res = seqx.Result{Violation: &seqx.Violation{Key: prop + ":panic", What: fmt.Sprintf("%v after %v", p, c20Hist(h))}}
				}
			}()
			e, k, w := c20Run(t, h, cache)
			defer c20Shutdown(e)
			if k == "" {
				e.vm.acceptedQueueBlocksProcessedWg.Wait()
				k, w = e.final()
				if k != "" {
					w = fmt.Sprintf("after %v: %s", c20Hist(h), w)
				}
			}
			if k != "" {
				return seqx.Result{Violation: &seqx.Violation{Key: prop + ":" + k, What: w + fmt.Sprintf(" [accepted-block cache %d]", cache)}}
			}
			return seqx.Result{Key: e.key(), Enabled: e.enabled(maxBlocks, sync), Outcome: decLast(h)}
		}
	}
	totalStates, totalTrans := 0, 0
	for _, cache := range []int{128, 2} {
		s := &seqx.Search{Exec: exec("C20", cache, false), MaxDepth: depth, Stop: r.Expired,
			OnViolation: func(h []int, v *seqx.Violation) {
				r.Violation(v.Key, v.What, map[string]any{"history": c20Hist(h), "ops": h, "cache": cache})
			}}
		st := s.Run()
		if !st.Complete {
			r.Cap("deadline reached before the depth bound")
		}
		totalStates += st.States
		totalTrans += st.Transitions
		for _, h := range st.Samples {
			r.Sample(c20Hist(h))
		}
	}
	// ---- schedules: engine thread vs async accepter, all interleavings within the bound
	schedExecs := c20Schedules(t, r, "C20")
	r.Cov["states"] = totalStates
	r.Cov["transitions"] = totalTrans
	r.Cov["traces_validated_against_impl"] = totalTrans
	r.Cov["schedule_executions"] = schedExecs
	r.Cov["bounds"] = map[string]any{"depth": depth, "max_new_blocks": maxBlocks, "accepted_block_cache": []int{128, 2}, "max_accept_lag": 3}
	r.Cov["explanation"] = "every transition runs a fresh real snow.VM (history replayed) driven by a deterministic model of the snowman engine; the Chain implementation checks the lifecycle contract of every callback; lookups are compared with the model after every event and the notification logs after the final drain; state key = model state (block tree, statuses, preference, processed flags)"
	r.Assumptions = []string{"engine calls consistent with snowman: verify only children of verified/accepted blocks, accept only children of the last accepted block, reject the rest transitively", "at most 3 accepted blocks waiting for the async accepter", "block ids are deterministic"}
	r.Finish()
}

func TestVerifC21(t *testing.T) {
	r := evid.Start("C21", "model_checking")
	c20Dir = t.TempDir()
	evid.CleanupDir(filepath.Dir(c20Dir))
	maxBlocks := evid.Pick(r, 4, 5)
	depth := evid.Pick(r, 7, 9)
	states, trans := 0, 0
	exec := func(h []int) (res seqx.Result) {
		defer func() {
			if p := recover(); p != nil {
				res = seqx.Result{Violation: &seqx.Violation{Key: "C21:panic", What: fmt.Sprintf("%v after %v", p, c20Hist(h))}}
			}
		}()
		e, k, w := c20Run(t, h, 128)
		defer c20Shutdown(e)
		if k != "" {
			return seqx.Result{Violation: &seqx.Violation{Key: "C21:" + k, What: w}}
		}
		// histories that never start a sync are C20's business: keep only prefixes that can still start one
		return seqx.Result{Key: e.key(), Enabled: e.enabled(maxBlocks, true), Outcome: decLast(h)}
	}
	c20Replay(t, exec)
	s := &seqx.Search{Exec: exec, MaxDepth: depth, Stop: r.Expired,
		OnViolation: func(h []int, v *seqx.Violation) {
			r.Violation(v.Key, v.What, map[string]any{"history": c20Hist(h), "ops": h})
		}}
	st := s.Run()
	if !st.Complete {
		r.Cap("deadline reached before the depth bound")
	}
	states, trans = st.States, st.Transitions
	for _, h := range st.Samples {
		r.Sample(c20Hist(h))
	}
	r.Cov["states"] = states
	r.Cov["transitions"] = trans
	r.Cov["traces_validated_against_impl"] = trans
	r.Cov["distinct_outcomes"] = len(st.Outcomes)
	r.Cov["outcomes"] = st.Outcomes
	r.Cov["bounds"] = map[string]any{"depth": depth, "max_new_blocks": maxBlocks}
	r.Cov["explanation"] = "the C20 engine model extended with start-state-sync (target = current tip) and finish-state-sync (target = any accepted block from the sync target to the tip); during sync blocks are parsed, vacuously verified (valid and invalid), accepted and rejected; after the hand-over the engine continues in normal operation; oracle after every event: health, last accepted state, exactly-once re-execution of the blocks between target and tip, re-verification of every processing block with valid ancestry, unhealthy iff a failed processing block is still unrejected"
	r.Assumptions = []string{"the engine accepts only blocks that are really valid after the hand-over", "state sync starts once per history, at the current tip"}
	r.Finish()
}

// c20Replay re-runs one recorded history (targeted replay) and exits 1 iff it violates.
func c20Replay(t *testing.T, exec func([]int) seqx.Result) {
	p := evid.ReplayPayload()
	if p == nil {
		return
	}
	raw, ok := p["ops"].([]any)
	if !ok {
		return // a schedule artefact: replayed generically by re-running the check
	}
	var h []int
	for _, x := range raw {
		h = append(h, int(x.(float64)))
	}
	res := exec(h)
	fmt.Println("replay", c20Hist(h))
	if res.Violation != nil {
		fmt.Println("  violation:", res.Violation.Key, res.Violation.What)
		evid.RunCleanup()
		os.Exit(1)
	}
	fmt.Println("  held")
	evid.RunCleanup()
	os.Exit(0)
}

func decLast(h []int) string {
	if len(h) == 0 {
		return ""
	}
	return decOp(h[len(h)-1]).kind
}

// c20Schedules explores all interleavings (preemption-bounded) of selected histories in which
// the async accepter runs concurrently with the engine thread.
func c20Schedules(t *testing.T, r *evid.Run, prop string) int {
	mk := func(ops ...c20Op) []int {
		var h []int
		for _, o := range ops {
			h = append(h, encOp(o))
		}
		return h
	}
	hists := [][]int{
		mk(c20Op{kind: "build"}, c20Op{kind: "accept", a: 1}, c20Op{kind: "build"}, c20Op{kind: "accept", a: 2}, c20Op{kind: "drain"}),
		mk(c20Op{kind: "parse", a: 0}, c20Op{kind: "parse", a: 0}, c20Op{kind: "accept", a: 1}, c20Op{kind: "parse", a: 1}, c20Op{kind: "drain"}),
		mk(c20Op{kind: "build"}, c20Op{kind: "build"}, c20Op{kind: "accept", a: 1}, c20Op{kind: "accept", a: 2}, c20Op{kind: "known", a: 2}, c20Op{kind: "drain"}),
		mk(c20Op{kind: "build"}, c20Op{kind: "acceptr", a: 1}, c20Op{kind: "drain"}),
		mk(c20Op{kind: "parse", a: 0}, c20Op{kind: "parse", a: 0}, c20Op{kind: "acceptr", a: 2}, c20Op{kind: "drain"}),
	}
	bound := evid.Pick(r, 2, 3)
	total := 0
	for hi, h := range hists {
		var e *vEngine
		var k0, w0 string
		ex := &vsched.Explorer{MaxPreemptions: bound, MaxDeviations: -1, Stop: r.Expired, StopAtFirst: true,
			Body: func() {
				e, k0, w0 = c20Run(t, h, 2)
				if k0 == "" {
					e.vm.acceptedQueueBlocksProcessedWg.Wait()
					k0, w0 = e.final()
				}
				c20Shutdown(e)
			},
			Check: func(out *vsched.Outcome) (string, string) {
				if out.Deadlock {
					return "deadlock", fmt.Sprintf("%v", out.Blocked)
				}
				return k0, w0
			},
			OnViolation: func(key, what string, choices []int, _ *vsched.Outcome) {
				r.Violation(prop+":"+key, what+fmt.Sprintf(" [schedule exploration of %v]", c20Hist(h)), map[string]any{"history": c20Hist(h), "ops": h, "choices": choices, "schedule_scenario": hi})
			}}
		if !ex.Run() {
			evid.Infra("schedule exploration diverged: %s", ex.Diverged)
		}
		if !ex.Exhaustive && ex.Violations == 0 {
			r.Cap("deadline reached inside a schedule scenario")
		}
		total += ex.Executions
	}
	r.Cov["schedule_preemption_bound"] = bound
	return total
}
