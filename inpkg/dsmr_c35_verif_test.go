package dsmr

// C35 harness (in-package: it reuses the package's test network helpers and builds a node
// with an empty chunk store). Overlaid into x/dsmr by /verif/check; never part of /repo.
//
// A producer network of two validators builds chunks and a block referencing two of them;
// an observer node accepts the block with each referenced chunk either already local or
// only available from the validators, whose GetChunk handlers are wrapped by a fault script:
// EVERY sequence of length <= 3 over {transport error, unparsable payload, a different but
// validly signed chunk} followed by correct answers. Oracle: Accept succeeds and the executed
// block holds exactly the referenced chunks in certificate order.

import (
	"context"
	"fmt"
	"sync"
	"testing"
	"time"

	"github.com/ava-labs/avalanchego/database/memdb"
	"github.com/ava-labs/avalanchego/ids"
	"github.com/ava-labs/avalanchego/network/p2p"
	"github.com/ava-labs/avalanchego/network/p2p/p2ptest"
	"github.com/ava-labs/avalanchego/snow/engine/common"
	"github.com/ava-labs/avalanchego/utils/logging"
	"google.golang.org/protobuf/proto"

	"github.com/ava-labs/hypersdk/codec"
	"github.com/ava-labs/hypersdk/internal/validitywindow/validitywindowtest"
	"github.com/ava-labs/hypersdk/internal/vshim/evid"
	pdsmr "github.com/ava-labs/hypersdk/proto/pb/dsmr"
	"github.com/ava-labs/hypersdk/x/dsmr/dsmrtest"
)

type c35Fault int

const (
	c35Err c35Fault = iota
	c35Garbage
	c35WrongChunk
)

var c35FaultNames = []string{"transport error", "unparsable payload", "different valid chunk"}

type c35Script struct {
	mu     sync.Mutex
	faults []c35Fault
	pos    int
	wrong  []byte // bytes of a validly signed chunk that the block does not reference
	served int
}

type c35Handler struct {
	inner  p2p.Handler
	script *c35Script
}

func (*c35Handler) AppGossip(context.Context, ids.NodeID, []byte) {}

func (h *c35Handler) AppRequest(ctx context.Context, nodeID ids.NodeID, deadline time.Time, req []byte) ([]byte, *common.AppError) {
	s := h.script
	s.mu.Lock()
	var f c35Fault = -1
	if s.pos < len(s.faults) {
		f = s.faults[s.pos]
		s.pos++
	}
	s.served++
	s.mu.Unlock()
	switch f {
	case c35Err:
		return nil, &common.AppError{Code: 77, Message: "injected"}
	case c35Garbage:
		b, _ := proto.Marshal(&pdsmr.GetChunkResponse{Chunk: []byte{1, 2, 3}})
		return b, nil
	case c35WrongChunk:
		b, _ := proto.Marshal(&pdsmr.GetChunkResponse{Chunk: s.wrong})
		return b, nil
	}
	return h.inner.AppRequest(ctx, nodeID, deadline, req)
}

type c35Case struct {
	local  [2]bool
	faults []c35Fault
}

func (c c35Case) String() string {
	f := []string{}
	for _, x := range c.faults {
		f = append(f, c35FaultNames[x])
	}
	return fmt.Sprintf("chunk0Local=%v chunk1Local=%v peerAnswers=%v then correct", c.local[0], c.local[1], f)
}

func TestVerifC35(t *testing.T) {
	r := evid.Start("C35", "exploration")
	var cases []c35Case
	var seqs [][]c35Fault
	var rec func(cur []c35Fault)
	maxLen := evid.Pick(r, 3, 4)
	rec = func(cur []c35Fault) {
		seqs = append(seqs, append([]c35Fault{}, cur...))
		if len(cur) == maxLen {
			return
		}
		for f := c35Err; f <= c35WrongChunk; f++ {
			rec(append(cur, f))
		}
	}
	rec(nil)
	for _, loc := range [][2]bool{{false, true}, {true, false}, {false, false}, {true, true}} {
		for _, s := range seqs {
			if loc[0] && loc[1] && len(s) > 0 {
				continue // nothing is fetched
			}
			cases = append(cases, c35Case{loc, s})
		}
	}
	ctx := context.Background()
	evals, nontrivial := 0, 0
	outcomes := map[string]int{}
	violated := false
	for ci, c := range cases {
		if violated {
			// stop at the first violation: a broken Accept may leave callbacks behind that panic the
			// process later (seen with a seeded change), which would turn the verdict into a crash
			r.Cap("stopped at the first violation")
			break
		}
		if r.Expired() {
			r.Cap("deadline reached")
			break
		}
		nodes := newTestNodes(t, 2)
		prod := nodes[0]
		// three chunks: two referenced by the block, one "wrong" chunk built afterwards
		mkChunk := func(n byte) {
			if err := prod.BuildChunk(ctx, []dsmrtest.Tx{{ID: ids.ID{n, byte(ci), byte(ci >> 8)}, Expiry: 1_000_000}}, 1_000, codec.Address{n}); err != nil {
				t.Fatalf("BuildChunk: %v", err)
			}
		}
		mkChunk(1)
		mkChunk(2)
		blk, err := prod.BuildBlock(ctx, prod.LastAccepted, prod.LastAccepted.Timestamp+1)
		if err != nil || len(blk.ChunkCerts) != 2 {
			t.Fatalf("BuildBlock: %v (%d certs)", err, len(blk.ChunkCerts))
		}
		refIDs := map[ids.ID]bool{blk.ChunkCerts[0].ChunkID: true, blk.ChunkCerts[1].ChunkID: true}
		mkChunk(3)
		var wrong []byte
		for id, sc := range prod.storage.pendingChunkMap {
			if !refIDs[id] {
				wrong = sc.Chunk.bytes
			}
		}
		if wrong == nil {
			t.Fatal("no unreferenced chunk")
		}
		// observer: empty store, same validator set, get-chunk client through the fault script
		script := &c35Script{faults: c.faults, wrong: wrong}
		verifier := NewChunkVerifier[dsmrtest.Tx](prod.chainState, testRuleFactory)
		store, err := NewChunkStorage[dsmrtest.Tx](verifier, memdb.New(), testRuleFactory)
		if err != nil {
			t.Fatal(err)
		}
		peers := map[ids.NodeID]p2p.Handler{}
		for _, n := range nodes {
			peers[n.ID] = &c35Handler{inner: n.GetChunkHandler, script: script}
		}
		obsID := ids.GenerateTestNodeID()
		noop := p2p.NoOpHandler{}
		obs, err := New[dsmrtest.Tx](logging.NoLog{}, obsID, prod.chainState, prod.PublicKey, prod.Signer, store,
			&GetChunkHandler[dsmrtest.Tx]{storage: store}, noop, noop,
			p2ptest.NewClientWithPeers(t, ctx, obsID, noop, peers),
			p2ptest.NewClientWithPeers(t, ctx, obsID, noop, map[ids.NodeID]p2p.Handler{}),
			p2ptest.NewClientWithPeers(t, ctx, obsID, noop, map[ids.NodeID]p2p.Handler{}),
			prod.LastAccepted, &validitywindowtest.MockTimeValidityWindow[*emapChunkCertificate]{}, testRuleFactory)
		if err != nil {
			t.Fatal(err)
		}
		for i, cert := range blk.ChunkCerts {
			if !c.local[i] {
				continue
			}
			b, err := prod.storage.GetChunkBytes(cert.Expiry, cert.ChunkID)
			if err != nil {
				t.Fatal(err)
			}
			ch, err := ParseChunk[dsmrtest.Tx](b)
			if err != nil {
				t.Fatal(err)
			}
			if _, err := store.VerifyRemoteChunk(ch); err != nil {
				t.Fatalf("seeding the observer: %v", err)
			}
		}
		type res struct {
			eb  ExecutedBlock[dsmrtest.Tx]
			err error
		}
		done := make(chan res, 1)
		go func() {
			eb, err := obs.Accept(ctx, blk)
			done <- res{eb, err}
		}()
		evals++
		if !c.local[0] || !c.local[1] {
			nontrivial++
		}
		rep := map[string]any{"index": ci, "case": c.String()}
		select {
		case out := <-done:
			if out.err != nil {
				violated = true
				r.Violation("C35:accept-fails-after-valid-answer", fmt.Sprintf("Accept returned %v although a peer served the valid chunk (peer requests served: %d) [%s]", out.err, script.served, c), rep)
				outcomes["error"]++
				continue
			}
			if len(out.eb.Chunks) != len(blk.ChunkCerts) {
				violated = true
				r.Violation("C35:wrong-chunk-count", fmt.Sprintf("executed block has %d chunks, the block references %d [%s]", len(out.eb.Chunks), len(blk.ChunkCerts), c), rep)
				continue
			}
			bad := false
			for i, cert := range blk.ChunkCerts {
				if out.eb.Chunks[i].id != cert.ChunkID {
					violated = true
					r.Violation("C35:wrong-chunk-delivered", fmt.Sprintf("executed block chunk %d is %s, the certificate references %s [%s]", i, out.eb.Chunks[i].id, cert.ChunkID, c), rep)
					bad = true
					break
				}
			}
			if !bad {
				outcomes[fmt.Sprintf("ok after %d peer requests", script.served)]++
			}
		case <-time.After(120 * time.Second):
			violated = true
			r.Violation("C35:accept-hangs", fmt.Sprintf("Accept did not return within 120 s [%s]", c), rep)
		}
	}
	r.Sample(map[string]any{"case": cases[len(cases)/2].String()})
	r.Cov["evaluations"] = evals
	r.Cov["distinct_nontrivial"] = nontrivial
	r.Cov["distinct_outcomes"] = len(outcomes)
	r.Cov["outcomes"] = outcomes
	r.Cov["rule"] = fmt.Sprintf("blocks of 2 certificates x {local,remote}^2 x every peer-answer sequence of length <= %d over {transport error, unparsable payload, different validly signed chunk} followed by correct answers (the script is consumed across both validators, so the randomly chosen peer does not matter)", maxLen)
	r.Assumptions = []string{"2 validators (quorum 1/1) + 1 observer with an empty store", "native scheduling (avalanchego's p2p test network is not instrumented); the explored dimension is the environment's answers", "120 s hang watchdog (a correct Accept returns in milliseconds)"}
	r.Finish()
}
