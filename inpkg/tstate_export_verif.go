package tstate

// White-box export for /verif (added through go build -overlay only; never part of /repo).

import (
	"fmt"
	"sort"
	"strings"
)

func u16(p *uint16) string {
	if p == nil {
		return "-"
	}
	return fmt.Sprint(*p)
}

// VerifDump renders every private field of the view that can influence its future
// behaviour: pending changes, undo log, allocates and writes.
func (ts *TStateView) VerifDump() string {
	var sb strings.Builder
	ks := make([]string, 0, len(ts.pendingChangedKeys))
	for k := range ts.pendingChangedKeys {
		ks = append(ks, k)
	}
	sort.Strings(ks)
	sb.WriteString("P[")
	for _, k := range ks {
		v := ts.pendingChangedKeys[k]
		if v.IsNothing() {
			fmt.Fprintf(&sb, "%x=DEL,", k)
		} else {
			fmt.Fprintf(&sb, "%x=%x,", k, v.Value())
		}
	}
	sb.WriteString("]O[")
	for _, o := range ts.ops {
		fmt.Fprintf(&sb, "%d:%x:%x:%s:%s,", o.t, o.k, o.pastV, u16(o.pastAllocates), u16(o.pastWrites))
	}
	sb.WriteString("]A[")
	dumpU16(&sb, ts.allocates)
	sb.WriteString("]W[")
	dumpU16(&sb, ts.writes)
	sb.WriteString("]")
	return sb.String()
}

func dumpU16(sb *strings.Builder, m map[string]uint16) {
	ks := make([]string, 0, len(m))
	for k := range m {
		ks = append(ks, k)
	}
	sort.Strings(ks)
	for _, k := range ks {
		fmt.Fprintf(sb, "%x=%d,", k, m[k])
	}
}

// VerifPending returns the view's pending changes (nil value = delete).
func (ts *TStateView) VerifPending() map[string]*[]byte {
	out := map[string]*[]byte{}
	for k, v := range ts.pendingChangedKeys {
		if v.IsNothing() {
			out[k] = nil
		} else {
			b := append([]byte{}, v.Value()...)
			out[k] = &b
		}
	}
	return out
}
