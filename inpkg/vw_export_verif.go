package validitywindow

import "fmt"

// VerifDump renders the private state of the window (accepted-set dump and the height
// boundary between the processing walk and the accepted-set lookup).
func (v *TimeValidityWindow[T]) VerifDump() string {
	v.mu.Lock()
	defer v.mu.Unlock()
	return fmt.Sprintf("last=%d|%s", v.lastAcceptedBlockHeight, v.seen.VerifDump())
}
