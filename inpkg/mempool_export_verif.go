package mempool

import (
	"fmt"
	"sort"
	"strings"
)

// VerifDump renders the private state: queue order, per-sponsor counts, byte size, the
// streamed set and the prefetched stream.
func (m *Mempool[T]) VerifDump() (queue []string, dump string) {
	for e := m.queue.First(); e != nil; e = e.Next() {
		id := e.Value().GetID()
		queue = append(queue, fmt.Sprintf("%x", id[:1]))
	}
	var sb strings.Builder
	sb.WriteString("Q" + strings.Join(queue, ","))
	ow := []string{}
	for a, n := range m.owned {
		ow = append(ow, fmt.Sprintf("%x=%d", a[:2], n))
	}
	sort.Strings(ow)
	fmt.Fprintf(&sb, "|O%s|S%d|H%d|", strings.Join(ow, ","), m.pendingSize, m.eh.Len())
	if m.streamedItems != nil {
		st := []string{}
		for id := range m.streamedItems {
			st = append(st, fmt.Sprintf("%x", id[:1]))
		}
		sort.Strings(st)
		sb.WriteString("T" + strings.Join(st, ","))
	} else {
		sb.WriteString("T-")
	}
	fmt.Fprintf(&sb, "|N%v:", m.nextStreamFetched)
	for _, it := range m.nextStream {
		id := it.GetID()
		fmt.Fprintf(&sb, "%x,", id[:1])
	}
	return queue, sb.String()
}

// VerifOwned returns the per-sponsor counters.
func (m *Mempool[T]) VerifOwned() map[string]int {
	o := map[string]int{}
	for a, n := range m.owned {
		o[fmt.Sprintf("%x", a[:2])] = n
	}
	return o
}
