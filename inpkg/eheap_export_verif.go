package eheap

import (
	"fmt"
	"strings"
)

// VerifDump renders the heap array layout (ids, expiries, recorded indices).
func (eh *ExpiryHeap[T]) VerifDump() string {
	var sb strings.Builder
	for _, e := range eh.minHeap.Items() {
		fmt.Fprintf(&sb, "%x@%d#%d,", e.ID[:2], e.Val, e.Index)
	}
	return sb.String()
}
