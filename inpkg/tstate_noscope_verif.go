package tstate

import "context"

// GetValueNoScope reads through the view without a permission check (oracle-side reads).
func (ts *TStateView) GetValueNoScope(ctx context.Context, key []byte) ([]byte, error) {
	return ts.getValue(ctx, string(key))
}
