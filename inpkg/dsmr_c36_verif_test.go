package dsmr

// C36 harness (in-package so that it can build chunks and read the private state of
// ChunkStorage). Overlaid into x/dsmr by /verif/check; never part of /repo.

import (
	"context"
	"fmt"
	"sort"
	"strings"
	"sync/atomic"
	"testing"

	"github.com/ava-labs/avalanchego/database"
	"github.com/ava-labs/avalanchego/ids"
	"github.com/ava-labs/avalanchego/utils/set"

	"github.com/ava-labs/hypersdk/codec"
	"github.com/ava-labs/hypersdk/internal/vshim/crashx"
	"github.com/ava-labs/hypersdk/internal/vshim/evid"
	"github.com/ava-labs/hypersdk/internal/vshim/seqx"
	"github.com/ava-labs/hypersdk/x/dsmr/dsmrtest"
)

type c36Obs struct {
	pending  []string // id:len
	weights  []string
	min      int64
	accepted []string
}

func (o c36Obs) String() string {
	return fmt.Sprintf("pending=%v weights=%v min=%d accepted=%v", o.pending, o.weights, o.min, o.accepted)
}

func c36Observe(s *ChunkStorage[dsmrtest.Tx], names map[ids.ID]string, nodes map[ids.NodeID]string) c36Obs {
	var o c36Obs
	for id, c := range s.pendingChunkMap {
		o.pending = append(o.pending, fmt.Sprintf("%s:%d", names[id], len(c.Chunk.bytes)))
	}
	sort.Strings(o.pending)
	for n, w := range s.pendingChunksSizes {
		o.weights = append(o.weights, fmt.Sprintf("%s=%d", nodes[n], w))
	}
	sort.Strings(o.weights)
	o.min = s.minimumExpiry
	it := s.chunkDB.NewIteratorWithPrefix([]byte{acceptedByte})
	for it.Next() {
		_, _, id, _ := parseChunkKey(it.Key())
		o.accepted = append(o.accepted, fmt.Sprintf("%s:%d", names[id], len(it.Value())))
	}
	it.Release()
	sort.Strings(o.accepted)
	return o
}

var c36CrashPoints atomic.Int64

func TestVerifC36(t *testing.T) {
	r := evid.Start("C36", "model_checking")
	p1, p2 := ids.NodeID{1}, ids.NodeID{2}
	nodes := map[ids.NodeID]string{p1: "P1", p2: "P2"}
	mk := func(p ids.NodeID, exp int64, n byte) Chunk[dsmrtest.Tx] {
		c, err := newChunk(UnsignedChunk[dsmrtest.Tx]{Producer: p, Beneficiary: codec.Address{}, Expiry: exp,
			Txs: []dsmrtest.Tx{{ID: ids.ID{n}, Expiry: 1_000_000}}}, [48]byte{}, [96]byte{})
		if err != nil {
			t.Fatal(err)
		}
		return c
	}
	chunks := []Chunk[dsmrtest.Tx]{mk(p1, 1, 1), mk(p1, 2, 2), mk(p2, 3, 3)}
	names := map[ids.ID]string{}
	certs := make([]*ChunkCertificate, len(chunks))
	allIDs := []ids.ID{}
	for i, c := range chunks {
		names[c.id] = fmt.Sprintf("c%d", i)
		certs[i] = &ChunkCertificate{ChunkReference: ChunkReference{ChunkID: c.id, Producer: c.Producer, Expiry: c.Expiry}}
		allIDs = append(allIDs, c.id)
	}
	type opDef struct {
		kind string
		arg  int
		name string
	}
	var ops []opDef
	for i := range chunks {
		ops = append(ops, opDef{"local", i, fmt.Sprintf("add-local(c%d)", i)})
		ops = append(ops, opDef{"remote", i, fmt.Sprintf("verify-remote(c%d)", i)})
		ops = append(ops, opDef{"cert", i, fmt.Sprintf("set-cert(c%d)", i)})
	}
	for tmin := 1; tmin <= 4; tmin++ {
		ops = append(ops, opDef{"min-none", tmin, fmt.Sprintf("set-min(%d, save none)", tmin)})
		ops = append(ops, opDef{"min-all", tmin, fmt.Sprintf("set-min(%d, save all pending)", tmin)})
		ops = append(ops, opDef{"min-first", tmin, fmt.Sprintf("set-min(%d, save first pending)", tmin)})
	}
	ops = append(ops, opDef{"reopen", 0, "reopen"})
	hist := func(h []int) []string {
		o := []string{}
		for _, x := range h {
			o = append(o, ops[x].name)
		}
		return o
	}
	rf := testRuleFactory
	exec := func(h []int) (res seqx.Result) {
		viol := func(key, what string) seqx.Result {
			return seqx.Result{Violation: &seqx.Violation{Key: "C36:" + key, What: what, Data: map[string]any{"history": hist(h)}}}
		}
		defer func() {
			if p := recover(); p != nil {
				res = viol("panic", fmt.Sprintf("panic after %v: %v", hist(h), p))
			}
		}()
		db := crashx.New()
		tv := testVerifier[dsmrtest.Tx]{correctIDs: set.Of(allIDs...), correctCerts: set.Of(certs...)}
		openOn := func(d database.Database) (*ChunkStorage[dsmrtest.Tx], error) {
			return NewChunkStorage[dsmrtest.Tx](tv, d, rf)
		}
		open := func() (*ChunkStorage[dsmrtest.Tx], error) { return openOn(db) }
		s, err := open()
		if err != nil {
			return viol("open", err.Error())
		}
		outcome := ""
		for step, oi := range h {
			o := ops[oi]
			isLast := step == len(h)-1
			var before c36Obs
			if isLast {
				// what a restart would see BEFORE the operation (crash-atomicity reference)
				b, err := openOn(crashx.Clone(db))
				if err != nil {
					return viol("reopen-failed", err.Error())
				}
				before = c36Observe(b, names, nodes)
				db.Start()
			}
			switch o.kind {
			case "local":
				if err := s.AddLocalChunkWithCert(chunks[o.arg], certs[o.arg]); err != nil {
					return viol("add-local-failed", err.Error())
				}
				outcome = "local"
			case "remote":
				_, err := s.VerifyRemoteChunk(chunks[o.arg])
				outcome = fmt.Sprint("remote-err=", err != nil)
			case "cert":
				err := s.SetChunkCert(context.Background(), chunks[o.arg].id, certs[o.arg])
				outcome = fmt.Sprint("cert-err=", err != nil)
			case "min-none", "min-all", "min-first":
				var save []ids.ID
				var pend []string
				byName := map[string]ids.ID{}
				for id := range s.pendingChunkMap {
					pend = append(pend, names[id])
					byName[names[id]] = id
				}
				sort.Strings(pend)
				switch o.kind {
				case "min-all":
					for _, n := range pend {
						save = append(save, byName[n])
					}
				case "min-first":
					if len(pend) > 0 {
						save = append(save, byName[pend[0]])
					}
				}
				if err := s.SetMin(int64(o.arg), save); err != nil {
					return viol("set-min-failed", fmt.Sprintf("step %d %s: %v", step, o.name, err))
				}
				outcome = fmt.Sprintf("min-save-%d", len(save))
			case "reopen":
				s, err = open()
				if err != nil {
					return viol("reopen-failed", err.Error())
				}
				outcome = "reopen"
			}
			// oracle: a storage reopened on the same database now must look exactly like the live one
			live := c36Observe(s, names, nodes)
			if isLast {
				// crash points: every proper prefix of the operation's durable writes must recover to
				// the state before or the state after the operation
				for k, sn := range db.Stop() {
					rs, err := openOn(sn)
					if err != nil {
						return viol("crash:reopen-failed", fmt.Sprintf("after %v, crash after durable write %d: %v", hist(h), k+1, err))
					}
					got := c36Observe(rs, names, nodes)
					if got.String() != before.String() && got.String() != live.String() {
						return viol("crash:torn-operation", fmt.Sprintf("after %v, crash after durable write %d of the last operation: recovered {%s}, which is neither the state before {%s} nor after {%s}", hist(h), k+1, got, before, live))
					}
					c36CrashPoints.Add(1)
				}
			}
			re, err := open()
			if err != nil {
				return viol("reopen-failed", fmt.Sprintf("step %d: %v", step, err))
			}
			after := c36Observe(re, names, nodes)
			if live.String() != after.String() {
				key := "reopen-differs"
				switch {
				case fmt.Sprint(live.pending) != fmt.Sprint(after.pending):
					key = "reopen-differs:pending-chunks"
				case fmt.Sprint(live.weights) != fmt.Sprint(after.weights):
					key = "reopen-differs:producer-weight"
				case live.min != after.min:
					key = "reopen-differs:minimum-expiry"
				}
				return viol(key, fmt.Sprintf("after %v: live storage {%s}, reopened storage {%s}", hist(h[:step+1]), live, after))
			}
			// every pending or accepted chunk is served with its bytes by both
			for i, c := range chunks {
				b1, e1 := s.GetChunkBytes(c.Expiry, c.id)
				b2, e2 := re.GetChunkBytes(c.Expiry, c.id)
				if (e1 == nil) != (e2 == nil) || string(b1) != string(b2) {
					return viol("reopen-differs:chunk-bytes", fmt.Sprintf("after %v: chunk c%d served %v/%v", hist(h[:step+1]), i, e1, e2))
				}
			}
		}
		live := c36Observe(s, names, nodes)
		var ks []string
		it := db.NewIterator()
		for it.Next() {
			ks = append(ks, fmt.Sprintf("%x", it.Key()))
		}
		it.Release()
		certState := []string{}
		for id, c := range s.pendingChunkMap {
			certState = append(certState, fmt.Sprintf("%s=%v", names[id], c.Cert != nil))
		}
		sort.Strings(certState)
		return seqx.Result{Key: live.String() + "|" + strings.Join(ks, ",") + "|" + strings.Join(certState, ","), Enabled: allOps(len(ops)), Outcome: outcome}
	}
	depth := evid.Pick(r, 5, 7)
	srch := &seqx.Search{Exec: exec, MaxDepth: depth, Stop: r.Expired,
		OnViolation: func(h []int, v *seqx.Violation) {
			r.Violation(v.Key, v.What, map[string]any{"history": hist(h), "ops": h})
		}}
	st := srch.Run()
	if !st.Complete {
		r.Cap("deadline reached before the depth bound")
	}
	for _, h := range st.Samples {
		r.Sample(hist(h))
	}
	r.Cov["states"] = st.States
	r.Cov["transitions"] = st.Transitions
	r.Cov["traces_validated_against_impl"] = st.Transitions
	r.Cov["max_depth"] = st.MaxDepth
	r.Cov["distinct_outcomes"] = len(st.Outcomes)
	r.Cov["frontier_unexpanded_at_bound"] = st.Frontier
	r.Cov["bounds"] = map[string]any{"depth": depth, "ops": len(ops), "chunks": len(chunks)}
	r.Cov["crash_points_inside_operations"] = c36CrashPoints.Load()
	r.Cov["explanation"] = "every transition executes the real ChunkStorage on memdb; after every step a second storage is opened on the same database (= restart at every operation boundary); a counting database wrapper also reopens the storage on every proper prefix of the durable writes inside the last operation (crash points) and requires the state before or after the operation and compared with the live one on pending chunks, accepted chunks, minimum expiry, per-producer weight and served bytes"
	r.Assumptions = []string{"3 chunks (expiries 1-3, 2 producers), pass-through verifier from the package's own tests", "certificates are not compared (they are not persisted by design)"}
	r.Finish()
}

func allOps(n int) []int {
	o := make([]int, n)
	for i := range o {
		o[i] = i
	}
	return o
}
