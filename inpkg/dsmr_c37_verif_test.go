package dsmr

// C37 harness (in-package). A real single-validator DSMR node whose validity window is the
// real TimeValidityWindow over a harness chain index. Explicit-state search over: build a
// chunk (expiry 2 s or 5 s after the last accepted block), build+verify a block with the node's builder, craft+verify a block
// that references any certificates ever issued (twice in the block, already referenced by an
// ancestor, expired), accept the oldest verified block. Oracle (independent of the window):
// Verify rejects a block iff a chunk id repeats inside it, occurs in any ancestor on its
// path, or has an expiry below the block timestamp; the builder never produces such a block;
// no chunk id is delivered twice by accepted blocks.

import (
	"context"
	"fmt"
	"sort"
	"strings"
	"testing"

	"github.com/ava-labs/avalanchego/ids"
	"github.com/ava-labs/avalanchego/trace"
	"github.com/ava-labs/avalanchego/utils/logging"
	"github.com/ava-labs/avalanchego/utils/wrappers"

	"github.com/ava-labs/hypersdk/codec"
	"github.com/ava-labs/hypersdk/consts"
	"github.com/ava-labs/hypersdk/internal/validitywindow"
	"github.com/ava-labs/hypersdk/internal/vshim/evid"
	"github.com/ava-labs/hypersdk/internal/vshim/seqx"
	"github.com/ava-labs/hypersdk/utils"
	"github.com/ava-labs/hypersdk/x/dsmr/dsmrtest"
)

type c37Index struct {
	m map[ids.ID]validityWindowBlock
}

func (i *c37Index) GetExecutionBlock(_ context.Context, id ids.ID) (validitywindow.ExecutionBlock[*emapChunkCertificate], error) {
	if b, ok := i.m[id]; ok {
		return b, nil
	}
	return nil, fmt.Errorf("block %s not found", id)
}

const (
	c37U      = int64(1_000_000_000)
	c37Window = 5 * c37U // = the package's test rule (the validators bound chunk expiries by it when they sign)
)

type c37Op struct {
	kind string // "chunk", "build", "craft", "accept"
	a    int    // chunk: expiry; build/craft: dt
	list []int  // craft: certificate indices (creation order)
	name string
}

func c37MakeBlock(parent Block, ts int64, certs []*ChunkCertificate) Block {
	blk := Block{BlockHeader: BlockHeader{ParentID: parent.GetID(), Height: parent.Height + 1, Timestamp: ts}, ChunkCerts: certs}
	packer := wrappers.Packer{Bytes: make([]byte, 0, InitialChunkSize), MaxSize: consts.NetworkSizeLimit}
	if err := codec.LinearCodec.MarshalInto(blk, &packer); err != nil {
		panic(err)
	}
	blk.blkBytes = packer.Bytes
	blk.blkID = utils.ToID(blk.blkBytes)
	return blk
}

func TestVerifC37(t *testing.T) {
	r := evid.Start("C37", "model_checking")
	// the block-level replay window and the window the validators enforce on chunk expiries
	// when they sign must be the same rule (a deployment has one validity window)
	if int64(testRuleFactory.rules.validityWindow) != c37Window {
		t.Fatal("the package's test validity window changed; adapt c37Window")
	}
	var ops []c37Op
	for _, e := range []int{2, 5} {
		ops = append(ops, c37Op{kind: "chunk", a: e, name: fmt.Sprintf("build-chunk(expiry=last accepted+%ds)", e)})
	}
	for _, dt := range []int{1, 3, 6} {
		ops = append(ops, c37Op{kind: "build", a: dt, name: fmt.Sprintf("build-and-verify-block(dt=%d)", dt)})
	}
	for _, dt := range []int{1, 3, 6} {
		for _, l := range [][]int{{0}, {1}, {0, 0}, {0, 1}, {1, 0}, {2}} {
			ops = append(ops, c37Op{kind: "craft", a: dt, list: l, name: fmt.Sprintf("craft-and-verify-block(dt=%d, certs=%v)", dt, l)})
		}
	}
	ops = append(ops, c37Op{kind: "accept", name: "accept(oldest verified block)"})
	hist := func(h []int) []string {
		var o []string
		for _, x := range h {
			o = append(o, ops[x].name)
		}
		return o
	}
	ctx := context.Background()
	maxChunks, maxBlocks := 3, evid.Pick(r, 3, 4)
	exec := func(h []int) (res seqx.Result) {
		viol := func(k, w string) seqx.Result {
			return seqx.Result{Violation: &seqx.Violation{Key: "C37:" + k, What: w}}
		}
		defer func() {
			if p := recover(); p != nil {
				res = viol("panic", fmt.Sprintf("%v after %v", p, hist(h)))
			}
		}()
		node := newTestNodes(t, 1)[0]
		base := node.LastAccepted // the block newTestNodes accepted (its chunk expires at 123)
		idx := &c37Index{m: map[ids.ID]validityWindowBlock{}}
		idx.m[base.GetID()] = NewValidityWindowBlock(base)
		win, err := validitywindow.NewTimeValidityWindow[*emapChunkCertificate](ctx, logging.NoLog{}, trace.Noop, idx, NewValidityWindowBlock(base), func(int64) int64 { return c37Window })
		if err != nil {
			t.Fatal(err)
		}
		node.validityWindow = win
		type mblock struct {
			blk      Block
			certs    []int // certificate indices
			parent   int   // index into blocks; -1 = base
			accepted bool
		}
		var certs []*ChunkCertificate
		var blocks []*mblock
		delivered := map[int]int{} // certificate index -> times delivered by accepted blocks
		tip := func() (Block, int) {
			if len(blocks) == 0 {
				return base, -1
			}
			return blocks[len(blocks)-1].blk, len(blocks) - 1
		}
		onPath := func(parentIdx int, cert int) bool {
			for i := parentIdx; i >= 0; i = blocks[i].parent {
				for _, c := range blocks[i].certs {
					if c == cert {
						return true
					}
				}
			}
			return false
		}
		certIndex := func(id ids.ID) int {
			for i, c := range certs {
				if c.ChunkID == id {
					return i
				}
			}
			return -1
		}
		outcome := ""
		for step, x := range h {
			o := ops[x]
			switch o.kind {
			case "chunk":
				before := map[ids.ID]bool{}
				for id := range node.storage.pendingChunkMap {
					before[id] = true
				}
				err := node.BuildChunk(ctx, []dsmrtest.Tx{{ID: ids.ID{byte(len(certs) + 1), byte(step)}, Expiry: 1 << 40}}, node.LastAccepted.Timestamp+int64(o.a)*c37U, codec.Address{byte(len(certs))})
				if err != nil {
					outcome = "chunk-refused"
					// an expiry below the storage minimum is legitimately refused
					certs = append(certs, nil)
					continue
				}
				var found *ChunkCertificate
				for id, sc := range node.storage.pendingChunkMap {
					if !before[id] {
						found = sc.Cert
					}
				}
				if found == nil {
					return viol("chunk-not-stored", "BuildChunk succeeded but no new pending chunk with a certificate exists")
				}
				certs = append(certs, found)
				outcome = "chunk"
			case "build", "craft":
				parent, pidx := tip()
				ts := parent.Timestamp + int64(o.a)*c37U
				var blk Block
				var list []int
				if o.kind == "build" {
					b, err := node.BuildBlock(ctx, parent, ts)
					if err != nil {
						outcome = "build-nothing"
						continue
					}
					blk = b
					for _, c := range b.ChunkCerts {
						ci := certIndex(c.ChunkID)
						if ci < 0 {
							return viol("builder-unknown-cert", "built block references a certificate the harness never saw")
						}
						list = append(list, ci)
					}
				} else {
					var cs []*ChunkCertificate
					ok := true
					for _, ci := range o.list {
						if ci >= len(certs) || certs[ci] == nil {
							ok = false
							break
						}
						cs = append(cs, certs[ci])
					}
					if !ok {
						outcome = "craft-n/a"
						continue
					}
					list = o.list
					blk = c37MakeBlock(parent, ts, cs)
				}
				// oracle
				want := ""
				seen := map[int]bool{}
				for _, ci := range list {
					switch {
					case certs[ci].Expiry < ts:
						want = fmt.Sprintf("chunk %d expired at %d, block timestamp %d", ci, certs[ci].Expiry, ts)
					case seen[ci]:
						want = fmt.Sprintf("chunk %d is referenced twice in the block", ci)
					case onPath(pidx, ci):
						want = fmt.Sprintf("chunk %d is already referenced by an ancestor", ci)
					}
					seen[ci] = true
					if want != "" {
						break
					}
				}
				idx.m[blk.GetID()] = NewValidityWindowBlock(blk)
				verr := node.Verify(ctx, parent, blk)
				if o.kind == "build" && want != "" {
					return viol("builder-produces-bad-block", fmt.Sprintf("after %v: the built block (ts %d, chunks %v) is bad: %s", hist(h[:step+1]), ts, list, want))
				}
				if o.kind == "build" && verr != nil {
					return viol("built-block-fails-verify", fmt.Sprintf("after %v: %v", hist(h[:step+1]), verr))
				}
				if verr == nil && want != "" {
					k := "verify-admits-repeat"
					if strings.Contains(want, "expired") {
						k = "verify-admits-expired-chunk"
					}
					return viol(k, fmt.Sprintf("after %v: Verify accepted a block (ts %d, chunks %v) although %s", hist(h[:step+1]), ts, list, want))
				}
				if verr != nil {
					delete(idx.m, blk.GetID())
					outcome = "rejected"
					if want == "" {
						outcome = "rejected-unexpectedly"
					}
					continue
				}
				blocks = append(blocks, &mblock{blk: blk, certs: list, parent: pidx})
				outcome = "verified"
			case "accept":
				var next *mblock
				for _, b := range blocks {
					if !b.accepted {
						next = b
						break
					}
				}
				if next == nil {
					outcome = "accept-n/a"
					continue
				}
				eb, err := node.Accept(ctx, next.blk)
				if err != nil {
					return viol("accept-fails", fmt.Sprintf("after %v: accepting a verified block failed: %v", hist(h[:step+1]), err))
				}
				next.accepted = true
				for _, c := range eb.Chunks {
					ci := certIndex(c.id)
					delivered[ci]++
					if delivered[ci] > 1 {
						return viol("chunk-delivered-twice", fmt.Sprintf("after %v: chunk %d was delivered by two accepted blocks", hist(h[:step+1]), ci))
					}
				}
				outcome = "accepted"
			}
		}
		// enabled ops + canonical key from the model state (chunk ids are random per execution)
		var en []int
		unaccepted := 0
		for _, b := range blocks {
			if !b.accepted {
				unaccepted++
			}
		}
		for i, o := range ops {
			switch o.kind {
			case "chunk":
				if len(certs) < maxChunks {
					en = append(en, i)
				}
			case "build", "craft":
				if len(blocks) < maxBlocks {
					ok := true
					for _, ci := range o.list {
						if ci >= len(certs) || certs[ci] == nil {
							ok = false
						}
					}
					if ok {
						en = append(en, i)
					}
				}
			case "accept":
				if unaccepted > 0 {
					en = append(en, i)
				}
			}
		}
		var ks []string
		for i, c := range certs {
			if c == nil {
				ks = append(ks, fmt.Sprintf("c%d:refused", i))
			} else {
				ks = append(ks, fmt.Sprintf("c%d:e%d", i, c.Expiry))
			}
		}
		for i, b := range blocks {
			ks = append(ks, fmt.Sprintf("b%d:p%d:t%d:%v:%v", i, b.parent, b.blk.Timestamp, b.certs, b.accepted))
		}
		var pend []string
		for id := range node.storage.pendingChunkMap {
			pend = append(pend, fmt.Sprint(certIndex(id)))
		}
		sort.Strings(pend)
		return seqx.Result{Key: strings.Join(ks, ";") + "|pending=" + strings.Join(pend, ","), Enabled: en, Outcome: outcome}
	}
	depth := evid.Pick(r, 5, 6)
	srch := &seqx.Search{Exec: exec, MaxDepth: depth, Stop: r.Expired,
		OnViolation: func(h []int, v *seqx.Violation) {
			r.Violation(v.Key, v.What, map[string]any{"history": hist(h), "ops": h})
		}}
	st := srch.Run()
	if !st.Complete {
		r.Cap("deadline reached before the depth bound")
	}
	for _, h := range st.Samples {
		r.Sample(hist(h))
	}
	r.Cov["states"] = st.States
	r.Cov["transitions"] = st.Transitions
	r.Cov["traces_validated_against_impl"] = st.Transitions
	r.Cov["max_depth"] = st.MaxDepth
	r.Cov["distinct_outcomes"] = len(st.Outcomes)
	r.Cov["outcomes"] = st.Outcomes
	r.Cov["frontier_unexpanded_at_bound"] = st.Frontier
	r.Cov["bounds"] = map[string]any{"depth": depth, "ops": len(ops), "max_chunks": maxChunks, "max_blocks": maxBlocks, "window": c37Window}
	r.Cov["explanation"] = "every transition runs a fresh real single-validator DSMR node (the package's test wiring) with the real TimeValidityWindow over a harness chain index, history replayed; the state key is the model state (chunk expiries, block tree, pending set) because chunk ids are random per execution"
	r.Assumptions = []string{"single validator (certificates need its signature only)", "linear chain of verified blocks, accepted oldest-first", "chunk expiries last-accepted+{2,5} s, block gaps {1,3,6} s, one validity window of 5 s for chunk signing and block replay protection"}
	r.Finish()
}
