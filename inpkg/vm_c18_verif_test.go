package vm_test

// C18 harness (external test package of vm: it reuses the package's test VM factory and
// network). Overlaid into vm by /verif/check; never part of /repo.
//
// Fault enumeration at node level. A producer VM builds a chain of N blocks; a victim VM (the
// real vm.VM under snow.VM on pebble in a scratch directory) parses and verifies them and then
// accepts them while BOTH threads of the accept pipeline are gated at injected pointcuts: the
// consensus thread (snow Accept: index update, queueing) and the asynchronous accepter
// (processAccept: execution-result write, state commit, subscriber notification). For EVERY
// reachable pair of gate positions (engine hit p, accepter hit q) the data directory is copied
// while both threads stand still (= the on-disk image of a crash at that instant: every
// durable write is synchronous), a fresh VM is initialised on the copy (= restart) and compared
// with the producer, which never crashed.

import (
	"context"
	"crypto/sha256"
	"encoding/json"
	"fmt"
	"io"
	"log"
	"os"
	"path/filepath"
	"runtime/debug"
	"runtime/pprof"
	"sort"
	"strings"
	"sync"
	"testing"
	"time"

	"github.com/ava-labs/avalanchego/ids"
	"github.com/ava-labs/avalanchego/snow/engine/common"
	"github.com/ava-labs/avalanchego/snow/engine/enginetest"
	"github.com/ava-labs/avalanchego/snow/snowtest"
	"github.com/ava-labs/avalanchego/utils/hashing"
	"github.com/ava-labs/avalanchego/utils/logging"
	"github.com/stretchr/testify/require"

	"github.com/ava-labs/hypersdk/chain"
	"github.com/ava-labs/hypersdk/chain/chaintest"
	"github.com/ava-labs/hypersdk/event"
	"github.com/ava-labs/hypersdk/internal/vshim/evid"
	"github.com/ava-labs/hypersdk/internal/vshim/vsched"
	"github.com/ava-labs/hypersdk/snow"
	"github.com/ava-labs/hypersdk/vm"

	avasnow "github.com/ava-labs/avalanchego/snow"
)

type c18VM struct {
	snowVM *snow.VM[*chain.ExecutionBlock, *chain.OutputBlock, *chain.OutputBlock]
	vm     *vm.VM
	dir    string
	mu     sync.Mutex
	notif  []uint64
}

// c18NewVM initialises a real VM on the given data directory (an empty one = a new node, a
// copied one = a restart). It returns the Initialize error instead of failing the test.
func c18NewVM(ctx context.Context, t *testing.T, factory *vm.Factory, genesisBytes []byte, dir string) (*c18VM, error) {
	inner, err := factory.New()
	if err != nil {
		return nil, err
	}
	sv := snow.NewVM("v0.0.1", inner)
	v := &c18VM{snowVM: sv, vm: inner, dir: dir}
	sv.AddAcceptedSub(event.SubscriptionFunc[*chain.OutputBlock]{NotifyF: func(_ context.Context, b *chain.OutputBlock) error {
		v.mu.Lock()
		v.notif = append(v.notif, b.Hght)
		v.mu.Unlock()
		return nil
	}})
	snowCtx := snowtest.Context(t, hashing.ComputeHash256Array(genesisBytes))
	snowCtx.Log = logging.NoLog{}
	snowCtx.ChainDataDir = dir
	snowCtx.NodeID = ids.GenerateTestNodeID()
	toEngine := make(chan common.Message, 16)
	// default cache sizes (4 GiB + 2 GiB) make every merkledb rebuild after an unclean shutdown
	// allocate and scan gigabytes; the recovery logic does not depend on them
	cfg := vm.NewConfig()
	cfg.IntermediateNodeCacheSize = 8 << 20
	cfg.ValueNodeCacheSize = 8 << 20
	cfg.StateIntermediateWriteBufferSize = 1 << 20
	cfg.StateIntermediateWriteBatchSize = 1 << 18
	cfgBytes, _ := json.Marshal(map[string]any{vm.VMNamespaceKey: cfg})
	if err := sv.Initialize(ctx, snowCtx, nil, genesisBytes, nil, cfgBytes, toEngine, nil, &enginetest.Sender{T: t}); err != nil {
		return v, err
	}
	return v, nil
}

func (v *c18VM) notifications() []uint64 {
	v.mu.Lock()
	defer v.mu.Unlock()
	return append([]uint64{}, v.notif...)
}

func c18CopyDir(src, dst string) error {
	return filepath.Walk(src, func(p string, info os.FileInfo, err error) error {
		if err != nil {
			return err
		}
		rel, _ := filepath.Rel(src, p)
		target := filepath.Join(dst, rel)
		if info.IsDir() {
			return os.MkdirAll(target, 0o755)
		}
		if info.Name() == "LOCK" {
			return nil
		}
		in, err := os.Open(p)
		if err != nil {
			return err
		}
		defer in.Close()
		out, err := os.Create(target)
		if err != nil {
			return err
		}
		defer out.Close()
		_, err = io.Copy(out, in)
		return err
	})
}

var (
	c18Seen   = map[string]bool{}
	c18SeenMu sync.Mutex
)

// c18ImageKey hashes the content of a copied data directory.
func c18ImageKey(dir string) string {
	h := sha256.New()
	_ = filepath.Walk(dir, func(p string, info os.FileInfo, err error) error {
		if err != nil || info.IsDir() {
			return nil
		}
		rel, _ := filepath.Rel(dir, p)
		b, _ := os.ReadFile(p)
		fmt.Fprintf(h, "%s:%d:", rel, len(b))
		h.Write(b)
		return nil
	})
	return fmt.Sprintf("%x", h.Sum(nil))
}

type c18Ref struct {
	root    ids.ID
	results []byte
	id      ids.ID
}

// c18Gate is the pointcut hook: it records the hits of each thread and blocks a thread when it
// reaches its gate position.
type c18Gate struct {
	mu        sync.Mutex
	engHits   []string
	accHits   []string
	engGate   int // block the engine thread before its hit with this index (-1: never)
	accGate   int
	engParked chan struct{} // closed when the engine thread is parked at its gate
	accParked chan struct{}
	release   chan struct{} // closed to let both threads run on
	enabled   bool
}

func c18Thread(id string) int {
	switch {
	case strings.HasPrefix(id, "snow:StatefulBlock.Accept#"), strings.HasPrefix(id, "snow:StatefulBlock.queueAccept#"), strings.HasPrefix(id, "chainindex:ChainIndex.UpdateLastAccepted#"):
		return 0
	case strings.HasPrefix(id, "snow:StatefulBlock.processAccept#"), strings.HasPrefix(id, "snow:StatefulBlock.accept#"), strings.HasPrefix(id, "vm:VM.AcceptBlock#"), strings.HasPrefix(id, "chain:Accepter.AcceptBlock#"):
		return 1
	}
	return -1
}

func (g *c18Gate) hook(id string) {
	th := c18Thread(id)
	if th < 0 {
		return
	}
	g.mu.Lock()
	if !g.enabled {
		g.mu.Unlock()
		return
	}
	var idx int
	park := false
	if th == 0 {
		idx = len(g.engHits)
		if idx == g.engGate {
			park = true
		} else {
			g.engHits = append(g.engHits, id)
		}
	} else {
		idx = len(g.accHits)
		if idx == g.accGate {
			park = true
		} else {
			g.accHits = append(g.accHits, id)
		}
	}
	g.mu.Unlock()
	if !park {
		return
	}
	if th == 0 {
		close(g.engParked)
	} else {
		close(g.accParked)
	}
	<-g.release
	g.mu.Lock()
	if th == 0 {
		g.engHits = append(g.engHits, id)
		g.engGate = -1
	} else {
		g.accHits = append(g.accHits, id)
		g.accGate = -1
	}
	g.mu.Unlock()
}

type c18World struct {
	factory *vm.Factory
	genesis []byte
	blocks  [][]byte
	refs    []c18Ref // refs[h] for h = 0..N
}

// c18Produce builds the chain on a producer VM that accepts synchronously (the reference).
func c18Produce(ctx context.Context, t *testing.T, n int) *c18World {
	r := require.New(t)
	network := NewVMTestNetwork(ctx, t, 1)
	network.SetState(ctx, avasnow.NormalOp)
	defer network.Shutdown(ctx)
	w := &c18World{factory: NewTestVMFactory(r), genesis: network.VMs[0].VM.GenesisBytes}
	ref := func() c18Ref {
		la, err := network.VMs[0].SnowVM.GetConsensusIndex().GetLastAccepted(ctx)
		r.NoError(err)
		root, err := la.View.GetMerkleRoot(ctx)
		r.NoError(err)
		var res []byte
		if la.ExecutionResults != nil {
			res = la.ExecutionResults.Marshal()
		}
		return c18Ref{root: root, results: res, id: la.GetID()}
	}
	w.refs = append(w.refs, ref())
	for k := 0; k < n; k++ {
		var txs []*chain.Transaction
		for j := 0; j <= k%2; j++ {
			tx, err := network.GenerateTx(ctx, []chain.Action{&chaintest.TestAction{
				NumComputeUnits: 1, Nonce: uint64(k*10 + j), SpecifiedStateKeys: []string{}, ReadKeys: [][]byte{}, WriteKeys: [][]byte{}, WriteValues: [][]byte{}, Start: -1, End: -1,
			}}, network.AuthFactories()[0])
			r.NoError(err)
			txs = append(txs, tx)
		}
		network.SubmitTxs(ctx, txs)
		blks := network.BuildBlockAndUpdateHead(ctx)
		r.NoError(blks[0].SyncAccept(ctx))
		w.blocks = append(w.blocks, blks[0].Bytes())
		w.refs = append(w.refs, ref())
	}
	return w
}

type c18Outcome struct {
	key, what string
	engHits   []string
	accHits   []string
	tip       uint64
	lost      uint64
	note      string
}

// c18Scenario runs the victim with gates (p, q); p or q = -1 means "no gate for that thread".
func c18Scenario(ctx context.Context, t *testing.T, w *c18World, base string, p, q int, dry bool) c18Outcome {
	dir := filepath.Join(base, "victim")
	crashDir := filepath.Join(base, "crash")
	_ = os.RemoveAll(base)
	_ = os.MkdirAll(dir, 0o755)
	v, err := c18NewVM(ctx, t, w.factory, w.genesis, dir)
	if err != nil {
		return c18Outcome{key: "harness", what: "victim initialize: " + err.Error()}
	}
	_ = v.snowVM.SetState(ctx, avasnow.NormalOp)
	type sb = snow.StatefulBlock[*chain.ExecutionBlock, *chain.OutputBlock, *chain.OutputBlock]
	var blks []*sb
	for _, b := range w.blocks {
		blk, err := v.snowVM.ParseBlock(ctx, b)
		if err != nil {
			return c18Outcome{key: "harness", what: "victim parse: " + err.Error()}
		}
		if err := blk.Verify(ctx); err != nil {
			return c18Outcome{key: "harness", what: "victim verify: " + err.Error()}
		}
		_ = v.snowVM.SetPreference(ctx, blk.ID())
		blks = append(blks, blk)
	}
	g := &c18Gate{engGate: p, accGate: q, engParked: make(chan struct{}), accParked: make(chan struct{}), release: make(chan struct{}), enabled: true}
	vsched.PointHook = g.hook
	engDone := make(chan error, 1)
	go func() {
		for _, blk := range blks {
			if err := blk.Accept(ctx); err != nil {
				engDone <- err
				return
			}
		}
		engDone <- nil
	}()
	out := c18Outcome{}
	wait := func(parked chan struct{}, what string) bool {
		select {
		case <-parked:
			return true
		case <-time.After(120 * time.Second):
			out = c18Outcome{key: "harness", what: "gate not reached: " + what}
			return false
		}
	}
	finish := func() {
		close(g.release)
		select {
		case <-engDone:
		case <-time.After(120 * time.Second):
		}
		_ = v.snowVM.Shutdown(ctx) // drains the accept queue
		g.mu.Lock()
		g.enabled = false
		out.engHits, out.accHits = append([]string{}, g.engHits...), append([]string{}, g.accHits...)
		g.mu.Unlock()
		vsched.PointHook = nil
	}
	if dry {
		finish()
		return out
	}
	// engine first (the accepter can only reach its gate once the block is queued)
	if p >= 0 {
		if !wait(g.engParked, fmt.Sprintf("engine hit %d", p)) {
			finish()
			return out
		}
	} else {
		select {
		case err := <-engDone:
			engDone <- err
			if err != nil {
				out = c18Outcome{key: "accept-error", what: err.Error()}
				finish()
				return out
			}
		case <-time.After(120 * time.Second):
			out = c18Outcome{key: "harness", what: "engine thread did not finish"}
			finish()
			return out
		}
	}
	if q >= 0 {
		if p >= 0 {
			// the consensus thread is parked, possibly while holding a lock the accepter needs
			// (pointcuts sit between Lock and Unlock statements too): then the accepter cannot
			// reach its gate and this pair of positions does not exist as a crash state
			select {
			case <-g.accParked:
			case <-time.After(3 * time.Second):
				out = c18Outcome{key: "unreachable"}
				finish()
				return out
			}
		} else if !wait(g.accParked, fmt.Sprintf("accepter hit %d with engine gate %d", q, p)) {
			finish()
			return out
		}
	} else {
		// let the accepter work off everything that is queued: poll until its hit count is stable
		last, stable := -1, 0
		for stable < 5 {
			time.Sleep(20 * time.Millisecond)
			g.mu.Lock()
			n := len(g.accHits)
			g.mu.Unlock()
			if n == last {
				stable++
			} else {
				last, stable = n, 0
			}
		}
	}
	// ---- both threads stand still: this is the crash image
	pre := v.notifications()
	if err := c18CopyDir(dir, crashDir); err != nil {
		out = c18Outcome{key: "harness", what: "copy: " + err.Error()}
		finish()
		return out
	}
	finish()
	// two gate pairs with no durable write (and no notification) between them leave the same
	// files: one restart per distinct image is enough
	img := c18ImageKey(crashDir) + fmt.Sprint(pre)
	c18SeenMu.Lock()
	_, dup := c18Seen[img]
	c18Seen[img] = true
	c18SeenMu.Unlock()
	if dup {
		out.note = "same-image"
		return out
	}
	// ---- restart on the crash image
	rv, err := c18NewVM(ctx, t, w.factory, w.genesis, crashDir)
	if err != nil {
		out.key, out.what = "restart-fails", fmt.Sprintf("Initialize on the crash image failed: %v", err)
		return out
	}
	defer func() { _ = rv.snowVM.Shutdown(ctx) }()
	lastID, _ := rv.snowVM.LastAccepted(ctx)
	lb := rv.snowVM.LastAcceptedBlock(ctx)
	tip := lb.Height()
	out.tip = tip
	if int(tip) >= len(w.refs) || w.refs[tip].id != lastID {
		out.key, out.what = "last-accepted-wrong", fmt.Sprintf("restarted node reports last accepted height %d id %s", tip, lastID)
		return out
	}
	la, err := rv.snowVM.GetConsensusIndex().GetLastAccepted(ctx)
	if err != nil {
		out.key, out.what = "no-last-accepted-state", err.Error()
		return out
	}
	root, err := la.View.GetMerkleRoot(ctx)
	if err != nil {
		out.key, out.what = "root-error", err.Error()
		return out
	}
	if la.GetID() != w.refs[tip].id || root != w.refs[tip].root {
		out.key, out.what = "state-differs-from-uncrashed-node", fmt.Sprintf("restarted node at height %d: block %s root %s, never-crashed node: block %s root %s", tip, la.GetID(), root, w.refs[tip].id, w.refs[tip].root)
		return out
	}
	var res []byte
	if la.ExecutionResults != nil {
		res = la.ExecutionResults.Marshal()
	}
	if tip > 0 && string(res) != string(w.refs[tip].results) {
		out.key, out.what = "results-differ-from-uncrashed-node", fmt.Sprintf("execution results of height %d differ after the restart", tip)
		return out
	}
	// subscribers: every accepted height 1..tip at least once over both runs, ascending within a run
	post := rv.notifications()
	for _, run := range [][]uint64{pre, post} {
		if !sort.SliceIsSorted(run, func(i, j int) bool { return run[i] < run[j] }) {
			out.key, out.what = "notifications-out-of-order", fmt.Sprintf("accepted notifications before the crash %v, after the restart %v", pre, post)
			return out
		}
	}
	seen := map[uint64]bool{}
	for _, h := range append(append([]uint64{}, pre...), post...) {
		seen[h] = true
	}
	for h := uint64(1); h <= tip; h++ {
		if !seen[h] {
			out.lost = h
			out.key, out.what = "accepted-block-never-notified", fmt.Sprintf("height %d was accepted (tip after restart %d) but no accepted-block subscriber heard of it: before the crash %v, after the restart %v", h, tip, pre, post)
			return out
		}
	}
	out.note = fmt.Sprintf("tip=%d pre=%v post=%v", tip, pre, post)
	return out
}

func TestVerifC18(t *testing.T) {
	r := evid.Start("C18", "fault_enumeration")
	log.SetOutput(io.Discard) // pebble reports WAL replays of the copied directories through the standard logger
	ctx := context.Background()
	n := evid.Pick(r, 3, 4)
	scratch, err := os.MkdirTemp("", "verif-c18-")
	if err != nil {
		evid.Infra("%v", err)
	}
	defer os.RemoveAll(scratch)
	evid.CleanupDir(scratch)
	evid.CleanupDir(filepath.Dir(t.TempDir())) // testing's per-test directory: its own cleanup does not run on os.Exit
	w := c18Produce(ctx, t, n)
	// dry run: the hit sequences of both threads
	dry := c18Scenario(ctx, t, w, filepath.Join(scratch, "dry"), -1, -1, true)
	if dry.key != "" {
		evid.Infra("dry run: %s %s", dry.key, dry.what)
	}
	// block number of every hit: count queueAccept#end / processAccept#0 markers
	queuedAfter := make([]int, len(dry.engHits)+1) // blocks queued before engine hit p
	qn := 0
	for i, id := range dry.engHits {
		queuedAfter[i] = qn
		if strings.HasPrefix(id, "snow:StatefulBlock.queueAccept#end") {
			qn++
		}
	}
	queuedAfter[len(dry.engHits)] = qn
	blockOfAcc := make([]int, len(dry.accHits)) // 1-based block whose processing contains accepter hit q
	bn := 0
	for i, id := range dry.accHits {
		if id == "snow:StatefulBlock.accept#0" {
			bn++
		}
		blockOfAcc[i] = bn
	}
	type scen struct{ p, q int }
	var scens []scen
	for p := 0; p <= len(dry.engHits); p++ {
		pp := p
		if p == len(dry.engHits) {
			pp = -1
		}
		scens = append(scens, scen{pp, -1}) // accepter works off everything queued
		for q := 0; q < len(dry.accHits); q++ {
			if blockOfAcc[q] <= queuedAfter[p] {
				scens = append(scens, scen{pp, q})
			}
		}
	}
	nrun := 0
	if pf := os.Getenv("C18_PROF"); pf != "" {
		f, _ := os.Create(pf)
		_ = pprof.StartCPUProfile(f)
	}
	run := func(i int) evid.ShardResult {
		nrun++
		if nrun == 4 && os.Getenv("C18_PROF") != "" {
			pprof.StopCPUProfile()
		}
		sc := scens[i]
		res := evid.ShardResult{Name: fmt.Sprintf("engine gate %d, accepter gate %d", sc.p, sc.q), Counts: map[string]int{}}
		var o c18Outcome
		for attempt := 0; attempt < 3; attempt++ { // a violation must reproduce (the copy is taken from a live database directory)
			o = c18Scenario(ctx, t, w, filepath.Join(scratch, fmt.Sprintf("s%d-a%d", i, attempt)), sc.p, sc.q, false)
			_ = os.RemoveAll(filepath.Join(scratch, fmt.Sprintf("s%d-a%d", i, attempt)))
			debug.FreeOSMemory()
			if o.key == "" || o.key == "unreachable" {
				break
			}
		}
		if o.key == "unreachable" {
			res.Counts["unreachable_pairs"] = 1
			return res
		}
		res.Counts["crash_points"] = 1
		if o.key == "harness" {
			res.Infra = o.what
			return res
		}
		if o.key != "" {
			eg, ag := "after all accepts", "idle"
			if sc.p >= 0 {
				eg = dry.engHits[sc.p]
			}
			if sc.q >= 0 {
				ag = fmt.Sprintf("%s (block %d)", dry.accHits[sc.q], blockOfAcc[sc.q])
			}
			if o.key == "accepted-block-never-notified" && sc.q >= 0 && uint64(blockOfAcc[sc.q]) == o.lost && o.tip > o.lost &&
				(strings.HasPrefix(dry.accHits[sc.q], "vm:VM.AcceptBlock#") || strings.HasPrefix(dry.accHits[sc.q], "snow:StatefulBlock.accept#") || strings.HasPrefix(dry.accHits[sc.q], "chain:Accepter.AcceptBlock#")) {
				// the state commit of the lost block was durable, its notification had not been sent
				// yet, and later blocks were already indexed
				o.key = "accepted-block-never-notified:crash-between-state-commit-and-notification-below-the-index-tip"
			}
			res.Violations = append(res.Violations, evid.ShardViolation{Key: "C18:" + o.key, What: fmt.Sprintf("%s [crash with the consensus thread at %s (%d blocks queued) and the accepter at %s]", o.what, eg, queuedAfter[max(sc.p, 0)], ag), Replay: map[string]any{"index": i, "engine_gate": sc.p, "accepter_gate": sc.q}})
			return res
		}
		if o.note == "same-image" {
			res.Counts["pairs_with_an_already_restarted_image"]++
			return res
		}
		res.Counts["distinct_crash_images_restarted"]++
		res.Counts[fmt.Sprintf("recovered_tip_%d", o.tip)]++
		if i%17 == 0 {
			res.Sample = map[string]any{"scenario": res.Name, "observed": o.note}
		}
		return res
	}
	if idx, ok := evid.ReplayIndex(); ok {
		res := run(idx)
		fmt.Printf("replay scenario %d (%s): %d violation(s)\n", idx, res.Name, len(res.Violations))
		for _, v := range res.Violations {
			fmt.Println(" ", v.Key, v.What)
		}
		os.RemoveAll(scratch)
		evid.RunCleanup()
		if len(res.Violations) > 0 {
			os.Exit(1)
		}
		os.Exit(0)
	}
	if os.Getenv("VERIF_WORKERS") == "" {
		os.Setenv("VERIF_WORKERS", "8") // every scenario runs two full nodes on pebble
	}
	tot, _ := r.Sharded(len(scens), run)
	os.RemoveAll(scratch)
	r.Cov["evaluations"] = tot["crash_points"] - tot["unreachable_pairs"]
	r.Cov["distinct_nontrivial"] = tot["crash_points"] - tot["unreachable_pairs"]
	r.Cov["pairs_unreachable_because_the_parked_consensus_thread_holds_a_lock"] = tot["unreachable_pairs"]
	r.Cov["blocks"] = n
	r.Cov["distinct_crash_images_restarted"] = tot["distinct_crash_images_restarted"]
	r.Cov["pairs_with_an_already_restarted_image"] = tot["pairs_with_an_already_restarted_image"]
	r.Cov["gate_pairs"] = len(scens)
	r.Cov["engine_thread_pointcuts"] = len(dry.engHits)
	r.Cov["accepter_thread_pointcuts"] = len(dry.accHits)
	tips := map[string]int{}
	for k, v := range tot {
		if strings.HasPrefix(k, "recovered_tip_") {
			tips[k] = v
		}
	}
	r.Cov["recovered_tips"] = tips
	r.Cov["rule"] = fmt.Sprintf("chain of %d blocks; crash image taken at every reachable pair (consensus-thread pointcut p, accepter-thread pointcut q) with both threads parked: pointcuts before every statement of chainindex UpdateLastAccepted and snow queueAccept (consensus thread: the index write and the hand-over to the queue) and of snow accept, vm AcceptBlock, chain Accepter.AcceptBlock (accepter thread: result write, state commit, subscriber notification); plus 'accepter idle' for every p; restart = fresh VM on the copied directory", n)
	r.Assumptions = []string{"every durable write is synchronous, so the files of a quiescent node are the crash image (no compaction runs on these tiny databases; a violation must reproduce 3 times)", "the producer VM, which accepts synchronously and never crashes, is the reference", "subscriber observations before the crash are kept by the harness (a subscriber with durable storage)"}
	r.Finish()
}
