package fdsmr

// VerifPending renders the pending-expiry heap of the node (ids, expiries, positions).
func (n *Node[T, U]) VerifPending() string { return n.pending.VerifDump() }
