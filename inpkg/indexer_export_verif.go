package indexer

import (
	"fmt"
	"sort"
	"strings"
)

// VerifDump renders the private caches of the indexer and the heights stored on disk.
func (i *Indexer) VerifDump() string {
	i.mu.RLock()
	defer i.mu.RUnlock()
	var hs, ts, ds []string
	for h := range i.blockHeightToBlock {
		hs = append(hs, fmt.Sprint(h))
	}
	for id, c := range i.txCache {
		ts = append(ts, fmt.Sprintf("%x@%d", id[:2], c.blkHeight))
	}
	it := i.blockDB.NewIteratorWithPrefix(blockEntryKeyPrefix)
	for it.Next() {
		ds = append(ds, fmt.Sprintf("%x", it.Key()[1:]))
	}
	it.Release()
	sort.Strings(hs)
	sort.Strings(ts)
	return fmt.Sprintf("last=%d|mem=%s|ids=%d|txs=%s|disk=%s", i.lastHeight, strings.Join(hs, ","), len(i.blockIDToHeight), strings.Join(ts, ","), strings.Join(ds, ","))
}
