package emap

import (
	"fmt"
	"sort"
	"strings"
)

// VerifDump renders the private state of the EMap (heap layout, buckets, seen set).
func (e *EMap[T]) VerifDump() string {
	var sb strings.Builder
	sb.WriteString("H[")
	for _, it := range e.bh.Items() {
		fmt.Fprintf(&sb, "%d@%d:%x(", it.Val, it.Index, it.ID[:2])
		for _, id := range it.Item.items {
			fmt.Fprintf(&sb, "%x,", id[:2])
		}
		sb.WriteString(")")
	}
	sb.WriteString("]T[")
	ts := make([]int64, 0, len(e.times))
	for t := range e.times {
		ts = append(ts, t)
	}
	sort.Slice(ts, func(i, j int) bool { return ts[i] < ts[j] })
	for _, t := range ts {
		fmt.Fprintf(&sb, "%d:%d,", t, len(e.times[t].items))
	}
	sb.WriteString("]S[")
	ss := []string{}
	for id := range e.seen {
		ss = append(ss, fmt.Sprintf("%x", id[:2]))
	}
	sort.Strings(ss)
	sb.WriteString(strings.Join(ss, ","))
	sb.WriteString("]")
	return sb.String()
}
