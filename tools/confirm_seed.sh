#!/bin/bash
# tools/confirm_seed.sh <ID> <N> [check-ids...]: confirm a sub-agent's seeded change in a scratch
# worktree of /repo HEAD (outside /repo and /verif): patch applies and builds, the repository's
# test suite still passes with it, the demonstration fails with it and passes without it; then
# run our check(s) against the patched worktree. Results go to /verif/seeded/<ID>-<N>/.
set -u
ID=$1; N=$2; shift 2
CHECKS=${*:-$ID}
SRC=/tmp/seed/$ID.out/$N
DST=/verif/seeded/$ID-$N
W=/tmp/confirm-$ID-$N
export GOFLAGS=-mod=mod GOPROXY=off
unset GOTOOLCHAIN GOSUMDB
mkdir -p "$DST"
cp "$SRC/patch.diff" "$DST/patch.diff"
rm -rf "$DST/demo"; cp -r "$SRC/demo" "$DST/demo"
cp "$SRC/meta.json" "$DST/agent_meta.json"
git -C /repo worktree remove --force "$W" >/dev/null 2>&1
git -C /repo worktree add -q --detach "$W" HEAD || exit 3
cleanup() { git -C /repo worktree remove --force "$W" >/dev/null 2>&1; rm -rf /verif/.work/*-confirm-$ID-$N; }
trap cleanup EXIT
LOG="$DST/confirm.log"; : > "$LOG"
say() { echo "$@" | tee -a "$LOG"; }
# demo files -> their repo paths
place_demos() {
python3 - "$SRC/meta.json" "$SRC/demo" "$W" <<'PY'
import json,sys,os,shutil,re
meta=json.load(open(sys.argv[1])); demo=sys.argv[2]; w=sys.argv[3]
texts=[meta.get("demo_path")]+[e.get("demo_path") for e in meta.get("extra_demos",[]) if isinstance(e,dict)]
# repo-relative .go paths mentioned anywhere in the demo_path texts
mentioned=[]
for t in texts:
    if isinstance(t,str): mentioned+=re.findall(r"[\w./-]+\.go", t)
    elif isinstance(t,list):
        for x in t: mentioned+=re.findall(r"[\w./-]+\.go", str(x))
for root,_,files in os.walk(demo):
    for f in files:
        src=os.path.join(root,f); rel=os.path.relpath(src,demo)
        dst=None
        if os.sep in rel and os.path.isdir(os.path.join(w,os.path.dirname(rel))):
            dst=rel                                   # demo/ mirrors the repository layout
        else:
            c=[m for m in mentioned if os.path.basename(m)==f and not m.startswith("demo/")]
            if c: dst=c[0]
        if dst is None:
            print("NOT PLACED",rel); continue
        os.makedirs(os.path.dirname(os.path.join(w,dst)) or w,exist_ok=True)
        shutil.copy(src,os.path.join(w,dst)); print("placed",dst)
PY
}
demo_cmds() {
python3 - "$SRC/meta.json" "$W" "$ID" <<'PY'
import json,sys,re
meta=json.load(open(sys.argv[1])); w=sys.argv[2]; pid=sys.argv[3]
cmds=[meta.get("demo_cmd")]+[e.get("demo_cmd") for e in meta.get("extra_demos",[])]
for c in cmds:
    if not c: continue
    c=c.replace("/tmp/seed/%s"%pid, w).replace("<repo>", w)
    print(c)
PY
}
run_demos() { # returns 0 if all demo commands pass
  local rc=0
  while IFS= read -r c; do
    ( cd "$W" && timeout 1200 bash -c "$c" ) >> "$LOG" 2>&1 || rc=1
  done < <(demo_cmds)
  return $rc
}
place_demos >> "$LOG"
say "== demo WITHOUT patch (must pass)"
if run_demos; then say "demo_without_patch: PASS"; DW=pass; else say "demo_without_patch: FAIL"; DW=fail; fi
if [ "$(grep -a -E '^ok' "$LOG" | grep -a -v -c 'no tests to run')" = 0 ] && grep -a -q "no tests to run" "$LOG"; then say "demo did not run any test (placement problem)"; DW=notrun; fi
say "== apply patch"
git -C "$W" apply "$SRC/patch.diff" || { say "patch does not apply to HEAD"; echo '{"applies":false}' > "$DST/confirm.json"; exit 1; }
( cd "$W" && go build ./... ) >> "$LOG" 2>&1 && say "build: ok" || say "build: FAILED"
say "== demo WITH patch (must fail)"
if run_demos; then say "demo_with_patch: PASS (does not demonstrate)"; DP=pass; else say "demo_with_patch: FAIL (as wanted)"; DP=fail; fi
# remove demos before the suite (the suite must be the repository's own, unedited)
git -C "$W" clean -fdq
say "== repository test suite with the patch"
PREV=$(python3 -c "import json,sys;print(json.load(open('$DST/confirm.json')).get('suite',''))" 2>/dev/null)
if [ -n "${SKIP_SUITE:-}" ] && [[ "$PREV" == pass* ]]; then
  SUITE="$PREV"; say "suite not rerun (SKIP_SUITE): earlier confirmation recorded '$PREV'"
else
( cd "$W" && go test -vet=off -count=1 -p 6 -timeout 25m -skip 'TestGetChunkSignature_PersistAttestedBlocks' ./... ) > "$DST/suite.log" 2>&1
SUITE=pass; grep -E "^(FAIL|---  FAIL|--- FAIL|panic:)" "$DST/suite.log" >> "$LOG" && SUITE=fail
if [ "$SUITE" = fail ]; then
  # packages that fail only because of machine load / the fixed pubsub port are rerun alone
  PK=$(grep -E "^FAIL\s+github.com" "$DST/suite.log" | awk '{print $2}' | sed 's#github.com/ava-labs/hypersdk#.#' | sort -u | tr '\n' ' ')
  say "rerunning alone: $PK"
  for attempt in 1 2 3 4; do
    # the pubsub tests bind 127.0.0.1:8080: wait until nobody else on this machine holds it
    for w8 in $(seq 1 60); do ss -ltn 2>/dev/null | grep -q ":8080 " || break; sleep 5; done
    if ( cd "$W" && go test -vet=off -count=1 -p 1 -timeout 25m -skip 'TestGetChunkSignature_PersistAttestedBlocks' $PK ) > "$DST/suite-rerun.log" 2>&1; then SUITE="pass (after rerunning $PK alone)"; break; fi
    PK=$(grep -E "^FAIL\s+github.com" "$DST/suite-rerun.log" | awk '{print $2}' | sed 's#github.com/ava-labs/hypersdk#.#' | sort -u | tr '\n' ' ')
  done
  [ "$SUITE" = fail ] && grep -E "^(FAIL|--- FAIL|panic:)" "$DST/suite-rerun.log" >> "$LOG"
fi
fi
say "suite: $SUITE ($(grep -c '^ok' "$DST/suite.log") packages ok)"
say "== our checks against the patched tree"
RES=""
for C in $CHECKS; do
  ( cd /verif && VERIF_EVIDENCE_DIR=/verif/.work/seed-evidence VERIF_REPO="$W" VERIF_DEADLINE_S=${VERIF_DEADLINE_S:-280} ./check "$C" ${TIER:-quick} ) > "$DST/check-$C.out" 2>&1; rc=$?
  grep -a -E "^VIOLATION|^  key=|^KNOWN|INFRA|^$C " "$DST/check-$C.out" | cut -c1-400 | head -12 | tee -a "$LOG"
  say "check $C exit=$rc"
  RES="$RES \"$C\": $rc,"
done
echo "{\"applies\": true, \"demo_without_patch\": \"$DW\", \"demo_with_patch\": \"$DP\", \"suite\": \"$SUITE\", \"checks\": {${RES%,}}, \"repo_head\": \"$(git -C /repo rev-parse --short HEAD)\"}" > "$DST/confirm.json"
cat "$DST/confirm.json"
