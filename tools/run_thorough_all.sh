#!/bin/bash
# tools/run_thorough_all.sh [ID...]: run the thorough tier of the listed (default: all) checks one after
# the other; one summary line per check in .work/thorough-summary.txt, full output in .work/thorough-<ID>.out
cd /verif
IDS=${@:-C05 C07 C10 C11 C28 C39 C40 C12 C17 C27 C29 C30 C33 C34 C25 C31 C03 C09 C14 C15 C19 C22 C35 C38 C21 C37 C36 C02 C20 C23 C16 C06 C32 C18 C08 C04 C13 C26 C01 C24}
for id in $IDS; do
  s=$(date +%s)
  ./check $id thorough > .work/thorough-$id.out 2>&1; rc=$?
  e=$(( $(date +%s) - s ))
  echo "$id exit=$rc wall=${e}s $(grep -a -c '^VIOLATION' .work/thorough-$id.out) violations; $(grep -a -E "^$id thorough" .work/thorough-$id.out | tail -1 | cut -c1-200)" >> .work/thorough-summary.txt
done
echo DONE >> .work/thorough-summary.txt
