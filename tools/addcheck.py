#!/usr/bin/env python3
"""tools/addcheck.py ID engine category 'technique' 'text' 'note'  -> upserts into tools/checks.json and regenerates MANIFEST.json"""
import json, sys, os, subprocess
ROOT = os.path.dirname(os.path.dirname(os.path.abspath(__file__)))
p = os.path.join(ROOT, "tools", "checks.json")
t = json.load(open(p))
pid, engine, cat, tech, text, note = sys.argv[1:7]
e = {"id": pid, "engine": engine, "category": cat, "technique": tech, "text": text, "note": note}
t["checks"] = [c for c in t["checks"] if c["id"] != pid] + [e]
t["checks"].sort(key=lambda c: c["id"])
for en in t["engines"]:
    if en["name"] == engine and pid not in en["serves_properties"]:
        en["serves_properties"].append(pid); en["serves_properties"].sort()
json.dump(t, open(p, "w"), indent=1)
subprocess.run([sys.executable, os.path.join(ROOT, "tools", "manifest_gen.py")])
