#!/usr/bin/env python3
"""Writes seeded/<ID>-<N>/meta.json from the sub-agent's meta (agent_meta.json) and our own
confirmation run (confirm.json), and seeded/RESULTS.md (which checks catch which change)."""
import json, os, glob, re
ROOT = os.path.dirname(os.path.dirname(os.path.abspath(__file__)))
rows = []
for d in sorted(glob.glob(os.path.join(ROOT, "seeded", "C*-*"))):
    name = os.path.basename(d)
    try:
        am = json.load(open(os.path.join(d, "agent_meta.json")))
        cf = json.load(open(os.path.join(d, "confirm.json")))
    except Exception as e:
        print("skip", name, e); continue
    extra = {}
    xp = os.path.join(d, "later_runs.json")
    if os.path.exists(xp):
        extra = json.load(open(xp))
    checks = dict(cf.get("checks", {}))
    checks.update(extra.get("checks", {}))
    caught = sorted(k for k, v in checks.items() if v == 1)
    missed = sorted(k for k, v in checks.items() if v == 0)
    meta = {
        "property": am.get("property", name.split("-")[0]),
        "breaks": am.get("summary"),
        "files": am.get("files"),
        "needs_to_manifest": am.get("needs"),
        "demonstration": {"path_in_repo": am.get("demo_path"), "command": am.get("demo_cmd"), "extra": am.get("extra_demos"),
                          "reliability_reported_by_author": am.get("reliability")},
        "origin": "written by a fresh sub-agent that saw only the property text and a scratch worktree of /repo",
        "what_we_ran": "tools/confirm_seed.sh: scratch worktree of /repo HEAD; demonstration on the unchanged tree; git apply patch.diff; go build ./...; demonstration with the patch; repository suite (go test -vet=off -count=1 -p 6 -timeout 25m -skip TestGetChunkSignature_PersistAttestedBlocks ./..., failing packages rerun alone); ./check <ids> quick with VERIF_REPO pointing at the patched worktree; worktree removed",
        "confirmed": {"patch_applies_and_builds": cf.get("applies"), "demo_passes_without_patch": cf.get("demo_without_patch") == "pass",
                      "demo_fails_with_patch": cf.get("demo_with_patch") == "fail", "repository_suite_with_patch": cf.get("suite"),
                      "repo_head": cf.get("repo_head")},
        "checks_run_against_it": checks,
        "detected_by": caught,
        "not_detected_by": missed,
        "notes": extra.get("notes"),
    }
    json.dump(meta, open(os.path.join(d, "meta.json"), "w"), indent=1)
    rows.append((name, meta))
with open(os.path.join(ROOT, "seeded", "RESULTS.md"), "w") as f:
    f.write("# Seeded changes (written by sub-agents from the property text only) and which checks catch them\n\n")
    f.write("| change | breaks / needs | demo fails with / passes without | suite with patch | detected by | not detected by |\n|---|---|---|---|---|---|\n")
    for name, m in rows:
        b = (m["breaks"] or "")[:160].replace("|", "/").replace("\n", " ")
        c = m["confirmed"]
        f.write(f"| {name} | {b} | {c['demo_fails_with_patch']} / {c['demo_passes_without_patch']} | {c['repository_suite_with_patch']} | {', '.join(m['detected_by']) or '-'} | {', '.join(m['not_detected_by']) or '-'} |\n")
print("wrote", len(rows), "meta.json files")
