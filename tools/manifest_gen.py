#!/usr/bin/env python3
"""Regenerates /verif/MANIFEST.json from tools/checks.json (the per-property table) so the
manifest is always schema-valid. Usage: tools/manifest_gen.py"""
import json, os, sys
ROOT = os.path.dirname(os.path.dirname(os.path.abspath(__file__)))
tab = json.load(open(os.path.join(ROOT, "tools", "checks.json")))
props = [json.loads(l)["id"] for l in open(os.path.join(ROOT, "properties.jsonl"))]
checks, na = [], []
claimed = set()
for c in tab["checks"]:
    pid = c["id"]; claimed.add(pid)
    checks.append({
        "property_id": pid,
        "quick_cmd": f"./check {pid} quick",
        "thorough_cmd": f"./check {pid} thorough",
        "evidence_file": f"/verif/evidence/{pid}.json",
        "replay_cmd_template": f"./check {pid} quick --replay {{path}}",
        "engine": c["engine"],
        "level_claimed": {"category": c["category"], "text": c["text"], "design_ref": c.get("design_ref", f"DESIGN.md §4 {pid}")},
        "level_note": c["note"],
        "technique": c["technique"],
    })
nar = tab.get("not_applicable", {})
for p in props:
    if p not in claimed:
        na.append({"property_id": p, "reason": nar.get(p, "check not built yet in this session; planned in DESIGN.md §4 (not claimed until the check exists and passes)")})
m = {
    "version": 1,
    "setup_cmd": "./setup.sh",
    "hooks": {
        "guard": "verif",
        "enable": "no source hooks in /repo: ./check generates a go build -overlay (instrumented copies of the packages under test, virtual engine packages under internal/vshim, in-package white-box files) from the current /repo working tree on every run",
        "baseline_off_cmd": json.load(open("/root/.vp/BASELINE.json"))["cmd"],
        "source_commits": [],
        "add_only": True,
    },
    "engines": tab["engines"],
    "checks": checks,
    "notes": tab.get("notes", ""),
    "not_applicable": na,
}
json.dump(m, open(os.path.join(ROOT, "MANIFEST.json"), "w"), indent=1)
try:
    import jsonschema
    jsonschema.validate(m, json.load(open("/root/.vp/MANIFEST.schema.json")))
    print("MANIFEST.json valid:", len(checks), "checks,", len(na), "not_applicable")
except ImportError:
    print("written (jsonschema not importable here)")
