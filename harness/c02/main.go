// C02: every block the builder produces verifies identically.
//
// Part A (inputs x configurations): every mempool sequence of <=3 (thorough 4 over a reduced
// menu) items from a 16-item menu (valid, conflicting writers, failing action, undeclared
// access, underfunded sponsor, expired, too-far-future, wrong chain id, duplicate of an
// ancestor's transaction, unit hogs that do not fit / fit only alone, too many actions,
// oversized for the target block size) x rules {generous, tight block limits} x parent
// {genesis-like, height-1 block with transactions} x builder cores {1,4} is built by the real
// chain.Builder from the real mempool with the real TimeValidityWindow, then verified by a
// FRESH chain.Processor (other core count) on the same parent, and compared: no error, same
// post-state root, per-transaction results, unit prices and units consumed; a third opinion
// comes from the sequential reference. Two large mempools (300 transactions) drive the
// stream batching / prefetch path. Part B (schedules): small mempools under the controlled
// scheduler, every interleaving of the streaming build loop within the preemption bound.
package main

import (
	"context"
	"errors"
	"fmt"
	"os"
	"sort"
	"strings"
	"time"

	"github.com/ava-labs/avalanchego/ids"
	"github.com/ava-labs/avalanchego/trace"
	"github.com/ava-labs/avalanchego/utils/logging"

	"github.com/ava-labs/hypersdk/chain"
	"github.com/ava-labs/hypersdk/fees"
	vw "github.com/ava-labs/hypersdk/internal/validitywindow"
	"github.com/ava-labs/hypersdk/internal/vshim/evid"
	"github.com/ava-labs/hypersdk/internal/vshim/vsched"
	"github.com/ava-labs/hypersdk/internal/workers"
	"github.com/ava-labs/hypersdk/state"
	"github.com/ava-labs/hypersdk/verifh/rig"
)

const (
	parentTs = 100_000
	buildTs  = 110_000 // the frozen "now" of the builder and verifier
)

var (
	k1 = rig.Key("k1", 1)
	k2 = rig.Key("k2", 1)
	kU = rig.Key("kU", 1)
	kE = rig.Key("kE", 1)
)

type menuItem struct {
	name string
	mk   func(env *rig.Env, slot int) *chain.Transaction
}

func act(nonce int, compute uint64, decl []rig.KeyPerm, script ...rig.Step) *rig.OpAction {
	return &rig.OpAction{Declared: decl, Script: script, Compute: compute, Nonce: uint64(nonce), Start: -1, End: -1}
}
func dk(k string, p state.Permissions) rig.KeyPerm { return rig.KeyPerm{Key: k, Perm: p} }

const hog = 1000 // compute units of a "unit hog"; tight rules allow 1500 per block

var menu = []menuItem{
	{"append k1", func(e *rig.Env, s int) *chain.Transaction {
		return e.MakeTx(s, []chain.Action{act(s, 1, []rig.KeyPerm{dk(k1, state.All)}, rig.Step{Kind: rig.Append, Key: k1, Val: []byte("a")})}, buildTs, rig.TxOpts{})
	}},
	{"append k2", func(e *rig.Env, s int) *chain.Transaction {
		return e.MakeTx(s, []chain.Action{act(s, 1, []rig.KeyPerm{dk(k2, state.All)}, rig.Step{Kind: rig.Append, Key: k2, Val: []byte("b")})}, buildTs, rig.TxOpts{})
	}},
	{"copy k1->k2", func(e *rig.Env, s int) *chain.Transaction {
		return e.MakeTx(s, []chain.Action{act(s, 1, []rig.KeyPerm{dk(k1, state.Read), dk(k2, state.All)}, rig.Step{Kind: rig.Copy, Key: k1, Val: []byte(k2)})}, buildTs, rig.TxOpts{})
	}},
	{"write k1 then fail", func(e *rig.Env, s int) *chain.Transaction {
		return e.MakeTx(s, []chain.Action{act(s, 1, []rig.KeyPerm{dk(k1, state.All)}, rig.Step{Kind: rig.Put, Key: k1, Val: []byte("z")}, rig.Step{Kind: rig.Fail})}, buildTs, rig.TxOpts{})
	}},
	{"undeclared write", func(e *rig.Env, s int) *chain.Transaction {
		return e.MakeTx(s, []chain.Action{act(s, 1, []rig.KeyPerm{dk(k1, state.Read)}, rig.Step{Kind: rig.Put, Key: kU, Val: []byte("u")})}, buildTs, rig.TxOpts{})
	}},
	{"underfunded sponsor", func(e *rig.Env, s int) *chain.Transaction {
		return e.MakeTx(poorSponsor, []chain.Action{act(s, 1, []rig.KeyPerm{dk(k1, state.All)}, rig.Step{Kind: rig.Append, Key: k1, Val: []byte("p")})}, buildTs, rig.TxOpts{})
	}},
	{"expired", func(e *rig.Env, s int) *chain.Transaction {
		return e.MakeTx(s, []chain.Action{act(s, 1, []rig.KeyPerm{dk(k1, state.All)}, rig.Step{Kind: rig.Append, Key: k1, Val: []byte("e")})}, buildTs, rig.TxOpts{Expiry: buildTs - 1000})
	}},
	{"too far in the future", func(e *rig.Env, s int) *chain.Transaction {
		return e.MakeTx(s, []chain.Action{act(s, 1, []rig.KeyPerm{dk(k1, state.All)}, rig.Step{Kind: rig.Append, Key: k1, Val: []byte("f")})}, buildTs, rig.TxOpts{Expiry: buildTs + 10_000_000})
	}},
	{"wrong chain id", func(e *rig.Env, s int) *chain.Transaction {
		id := ids.ID{0xbd}
		return e.MakeTx(s, []chain.Action{act(s, 1, []rig.KeyPerm{dk(k1, state.All)}, rig.Step{Kind: rig.Append, Key: k1, Val: []byte("c")})}, buildTs, rig.TxOpts{ChainID: &id})
	}},
	{"duplicate of an ancestor's transaction", nil}, // filled per environment
	{"unit hog (does not fit a tight block)", func(e *rig.Env, s int) *chain.Transaction {
		return e.MakeTx(s, []chain.Action{act(s, 2*hog, []rig.KeyPerm{dk(k2, state.All)}, rig.Step{Kind: rig.Append, Key: k2, Val: []byte("H")})}, buildTs, rig.TxOpts{})
	}},
	{"unit hog (fits a tight block only alone)", func(e *rig.Env, s int) *chain.Transaction {
		return e.MakeTx(s, []chain.Action{act(s, hog, []rig.KeyPerm{dk(k1, state.All)}, rig.Step{Kind: rig.Append, Key: k1, Val: []byte("h")})}, buildTs, rig.TxOpts{})
	}},
	{"too many actions", func(e *rig.Env, s int) *chain.Transaction {
		var as []chain.Action
		for i := 0; i < 17; i++ {
			as = append(as, act(s*100+i, 1, []rig.KeyPerm{dk(k1, state.All)}, rig.Step{Kind: rig.Append, Key: k1, Val: []byte("m")}))
		}
		return e.MakeTx(s, as, buildTs, rig.TxOpts{})
	}},
	{"oversized for the target block size", func(e *rig.Env, s int) *chain.Transaction {
		return e.MakeTx(s, []chain.Action{act(s, 1, []rig.KeyPerm{dk(k2, state.All)}, rig.Step{Kind: rig.Put, Key: k2, Val: make([]byte, 40)}, rig.Step{Kind: rig.Get, Key: string(make([]byte, 200))})}, buildTs, rig.TxOpts{})
	}},
	{"delete k1", func(e *rig.Env, s int) *chain.Transaction {
		return e.MakeTx(s, []chain.Action{act(s, 1, []rig.KeyPerm{dk(k1, state.Write)}, rig.Step{Kind: rig.Del, Key: k1})}, buildTs, rig.TxOpts{})
	}},
	{"read kE (present in the parent with a zero-length value)", func(e *rig.Env, s int) *chain.Transaction {
		return e.MakeTx(s, []chain.Action{act(s, 1, []rig.KeyPerm{dk(kE, state.Read)}, rig.Step{Kind: rig.Get, Key: kE}, rig.Step{Kind: rig.Get, Key: kE})}, buildTs, rig.TxOpts{})
	}},
}

const (
	dupItem     = 9
	poorSponsor = 7
	nSponsors   = 8
)

type envKind struct {
	tight  bool
	parent int // 0 genesis-like (height 0), 1 height-1 block that carried transactions
}

type caseSpec struct {
	items []int
	ek    envKind
	cores int
	big   int // >0: a large mempool of that many independent valid transactions with the items spliced in
}

func (c caseSpec) String() string {
	n := []string{}
	for _, i := range c.items {
		n = append(n, menu[i].name)
	}
	return fmt.Sprintf("mempool=[%s] tightLimits=%v parent=%d builderCores=%d bigMempool=%d", strings.Join(n, " | "), c.ek.tight, c.ek.parent, c.cores, c.big)
}

type index struct{ m map[ids.ID]*chain.ExecutionBlock }

func (i *index) GetExecutionBlock(_ context.Context, id ids.ID) (vw.ExecutionBlock[*chain.Transaction], error) {
	if b, ok := i.m[id]; ok {
		return b, nil
	}
	return nil, errors.New("not found")
}

type world struct {
	env      *rig.Env
	parent   *chain.OutputBlock
	window   *vw.TimeValidityWindow[*chain.Transaction]
	ancestor *chain.Transaction // a transaction already included in the parent
}

func newWorld(ek envKind) *world {
	rules := rig.DefaultRules()
	if ek.tight {
		rules.MaxBlockUnits[fees.Compute] = hog + hog/2
		rules.WindowTargetUnits[fees.Compute] = 1 << 40
	}
	bal := make([]uint64, nSponsors)
	for i := range bal {
		bal[i] = 1 << 40
	}
	bal[poorSponsor] = 0
	height := uint64(ek.parent)
	env := rig.NewEnv(rig.EnvConfig{Rules: rules, Balances: bal, Height: height, Timestamp: parentTs, State: map[string][]byte{k1: []byte("1"), kE: {}}})
	w := &world{env: env}
	// ancestor transaction (valid at buildTs as well: its expiry window covers both blocks)
	w.ancestor = env.MakeTx(6, []chain.Action{act(999, 1, []rig.KeyPerm{dk(k2, state.All)}, rig.Step{Kind: rig.Append, Key: k2, Val: []byte("A")})}, buildTs, rig.TxOpts{})
	root, _ := env.DB.GetMerkleRoot(rig.Ctx)
	var ptxs []*chain.Transaction
	if ek.parent == 1 {
		ptxs = []*chain.Transaction{w.ancestor}
	}
	gsb, _ := chain.NewStatelessBlock(ids.Empty, parentTs-10_000, 0, nil, ids.Empty, nil)
	gen := chain.NewExecutionBlock(gsb)
	parentID := ids.Empty
	if ek.parent == 1 {
		parentID = gen.GetID()
	}
	sb, err := chain.NewStatelessBlock(parentID, parentTs, height, ptxs, root, nil)
	if err != nil {
		panic(err)
	}
	peb := chain.NewExecutionBlock(sb)
	w.parent = &chain.OutputBlock{ExecutionBlock: peb, View: env.DB}
	idx := &index{m: map[ids.ID]*chain.ExecutionBlock{peb.GetID(): peb, gen.GetID(): gen}}
	head := peb
	win, err := vw.NewTimeValidityWindow[*chain.Transaction](rig.Ctx, logging.NoLog{}, trace.Noop, idx, head, func(int64) int64 { return rules.GetValidityWindow() })
	if err != nil {
		panic(err)
	}
	w.window = win
	return w
}

type obs struct {
	built     *chain.ExecutionBlock
	out       *chain.OutputBlock
	buildErr  error
	verOut    *chain.OutputBlock
	verErr    error
	rootB     ids.ID
	rootV     ids.ID
	rootErr   error
	ref       *rig.SeqOutcome
	mempoolIn int
	w         *world
	cores     int
	verified  bool
}

func (c caseSpec) txs(w *world) []*chain.Transaction {
	var txs []*chain.Transaction
	slot := 0
	add := func(it int) {
		if it == dupItem {
			txs = append(txs, w.ancestor)
			return
		}
		txs = append(txs, menu[it].mk(w.env, slot%6))
		slot++
	}
	if c.big > 0 {
		// independent valid transactions (each its own key) with the special items spliced in at
		// the batch boundaries of the streaming loop
		pos := map[int]int{5: 0, 130: 1, 255: 2, 256: 3, 290: 4}
		for i := 0; i < c.big; i++ {
			if j, ok := pos[i]; ok && j < len(c.items) {
				add(c.items[j])
				continue
			}
			k := rig.Key(fmt.Sprintf("big%d", i), 1)
			txs = append(txs, w.env.MakeTx(i%6, []chain.Action{act(10_000+i, 1, []rig.KeyPerm{dk(k, state.All)}, rig.Step{Kind: rig.Put, Key: k, Val: []byte("v")})}, buildTs, rig.TxOpts{}))
		}
		return txs
	}
	for _, it := range c.items {
		add(it)
	}
	return txs
}

func body(c caseSpec, o **obs) func() {
	return func() {
		ob := &obs{}
		*o = ob
		w := newWorld(c.ek)
		txs := c.txs(w)
		ob.mempoolIn = len(txs)
		mp := rig.NewMempool(10_000, 10_000)
		mp.Add(rig.Ctx, txs)
		target := 0
		if c.big == 0 {
			target = 600 // bytes: the oversized item (and anything after it in the batch) is restored
		}
		b := w.env.NewBuilder(mp, w.window, c.cores, target)
		ob.built, ob.out, ob.buildErr = b.BuildBlock(rig.Ctx, nil, w.parent)
		ob.w = w
		ob.cores = c.cores
	}
}

// verify runs OUTSIDE the controlled execution (the scheduler is inactive while the oracle
// runs, so the instrumented code passes through to the native primitives): a fresh processor
// with a different core count executes the built block on the same parent.
func (ob *obs) verify() {
	if ob.buildErr != nil || ob.verified {
		return
	}
	ob.verified = true
	w := ob.w
	vc := 4
	if ob.cores == 4 {
		vc = 1
	}
	wk := workers.NewSerial()
	p := w.env.NewProcessor(vc, 2, wk, w.window, nil)
	ob.verOut, ob.verErr = p.Execute(rig.Ctx, w.parent.View, ob.built, true)
	if ob.verErr == nil {
		ob.rootB, ob.rootErr = ob.out.View.GetMerkleRoot(rig.Ctx)
		if ob.rootErr == nil {
			ob.rootV, ob.rootErr = ob.verOut.View.GetMerkleRoot(rig.Ctx)
		}
	}
	ob.ref = w.env.SeqExecute(w.parent.View, ob.built)
}

func verdict(c caseSpec, ob *obs, deadlock bool, blocked []string) (string, string, string) {
	if deadlock {
		return "deadlock", fmt.Sprintf("build/verify hangs: %v", blocked), ""
	}
	ob.verify()
	if ob.buildErr != nil {
		if errors.Is(ob.buildErr, chain.ErrNoTxs) {
			return "", "", "no-block:ErrNoTxs"
		}
		return "", "", "no-block:" + ob.buildErr.Error()
	}
	names := func() string {
		var n []string
		for _, tx := range ob.built.Txs {
			n = append(n, tx.GetID().String()[:6])
		}
		return fmt.Sprintf("%d txs", len(n))
	}
	if ob.verErr != nil {
		return "built-block-fails-verification", fmt.Sprintf("the built block (%s) is rejected by verification on the same parent: %v", names(), ob.verErr), ""
	}
	if ob.rootErr != nil {
		return "root-error", ob.rootErr.Error(), ""
	}
	if ob.rootB != ob.rootV {
		return "post-state-root-differs", fmt.Sprintf("builder root %s, verifier root %s (%s)", ob.rootB, ob.rootV, names()), ""
	}
	br, vr := ob.out.ExecutionResults, ob.verOut.ExecutionResults
	if len(br.Results) != len(vr.Results) || len(br.Results) != len(ob.built.Txs) {
		return "results-differ", fmt.Sprintf("builder %d results, verifier %d, block %d txs", len(br.Results), len(vr.Results), len(ob.built.Txs)), ""
	}
	for i := range br.Results {
		if rig.ResultString(br.Results[i]) != rig.ResultString(vr.Results[i]) {
			return "results-differ", fmt.Sprintf("tx %d: builder %s, verifier %s", i, rig.ResultString(br.Results[i]), rig.ResultString(vr.Results[i])), ""
		}
	}
	if br.UnitPrices != vr.UnitPrices {
		return "unit-prices-differ", fmt.Sprintf("builder %v verifier %v", br.UnitPrices, vr.UnitPrices), ""
	}
	if br.UnitsConsumed != vr.UnitsConsumed {
		return "units-consumed-differ", fmt.Sprintf("builder %v verifier %v", br.UnitsConsumed, vr.UnitsConsumed), ""
	}
	if ob.ref.Err != nil {
		return "sequential-reference-rejects", fmt.Sprintf("sequential application of the built block fails: %v", ob.ref.Err), ""
	}
	for i := range br.Results {
		if rig.ResultString(br.Results[i]) != rig.ResultString(ob.ref.Results[i]) {
			return "results-differ-from-sequential", fmt.Sprintf("tx %d: builder %s, sequential %s", i, rig.ResultString(br.Results[i]), rig.ResultString(ob.ref.Results[i])), ""
		}
	}
	return "", "", fmt.Sprintf("block:%d/%d", len(ob.built.Txs), ob.mempoolIn)
}

func genCases(thorough bool) []caseSpec {
	var out []caseSpec
	eks := []envKind{{false, 0}, {true, 0}, {false, 1}, {true, 1}}
	n := len(menu)
	add := func(items []int) {
		for ei, ek := range eks {
			hasDup := false
			for _, it := range items {
				if it == dupItem {
					hasDup = true
				}
			}
			if hasDup && ek.parent == 0 {
				continue // no ancestor transaction to duplicate
			}
			cores := []int{1, 4}[(len(items)+ei)%2]
			out = append(out, caseSpec{items: append([]int{}, items...), ek: ek, cores: cores})
			if len(items) <= 2 {
				out = append(out, caseSpec{items: append([]int{}, items...), ek: ek, cores: 5 - cores})
			}
		}
	}
	add(nil)
	core := []int{0, 2, 3, 5, 6, 9, 10, 11, 13, 14, 15} // order-sensitive / skip-path items for the deepest level
	var rec func(cur []int)
	rec = func(cur []int) {
		if len(cur) > 0 {
			add(cur)
		}
		if len(cur) == 3 && !thorough {
			return
		}
		if len(cur) == 4 {
			return
		}
		for i := 0; i < n; i++ {
			if len(cur) >= 2 && !thorough {
				ok := false
				for _, c := range core {
					if c == i {
						ok = true
					}
				}
				if !ok {
					continue
				}
			}
			if len(cur) == 3 {
				ok := false
				for _, c := range core[:6] {
					if c == i {
						ok = true
					}
				}
				if !ok || cur[0] > 11 {
					continue
				}
			}
			rec(append(cur, i))
		}
	}
	rec(nil)
	// large mempools: two stream batches + prefetch
	for _, items := range [][]int{{6, 9, 3, 11, 4}, {9, 6, 9, 10, 13}, {}} {
		for _, ek := range eks[2:] {
			out = append(out, caseSpec{items: items, ek: ek, cores: 4, big: 300})
		}
	}
	return out
}

func main() {
	r := evid.Start("C02", "exploration")
	vsched.FreezeClock(buildTs)
	cases := genCases(r.Thorough())
	nA := len(cases)
	bBound := evid.Pick(r, 2, 3)
	var partB []caseSpec
	for _, items := range [][]int{{0, 1}, {0, 2}, {11, 0}, {9, 0}, {3, 0}} {
		partB = append(partB, caseSpec{items: items, ek: envKind{true, 1}, cores: 2})
	}
	if evid.RacePass() {
		for i := 0; i < len(cases); i += 41 {
			var o *obs
			b := body(cases[i], &o)
			for k := 0; k < evid.Pick(r, 2, 10); k++ {
				b()
				time.Sleep(2 * time.Millisecond) // let the asynchronous FinishStreaming drain
			}
		}
		return
	}
	run := func(i int) evid.ShardResult {
		res := evid.ShardResult{Counts: map[string]int{}}
		var c caseSpec
		bound, maxExec := 0, 1
		if i < len(partB) {
			c = partB[i]
			bound, maxExec = bBound, 0
			res.Name = "B: " + c.String()
		} else {
			c = cases[i-len(partB)]
			res.Name = "A: " + c.String()
		}
		var o *obs
		outcomes := map[string]bool{}
		ex := &vsched.Explorer{Body: body(c, &o), MaxPreemptions: bound, MaxDeviations: -1, MaxExecutions: maxExec, Stop: r.Expired, StopAtFirst: true,
			Check: func(out *vsched.Outcome) (string, string) {
				k, w, oc := verdict(c, o, out.Deadlock, out.Blocked)
				if k == "" {
					outcomes[oc] = true
				}
				return k, w
			},
			OnViolation: func(key, what string, choices []int, out *vsched.Outcome) {
				res.Violations = append(res.Violations, evid.ShardViolation{Key: "C02:" + key, What: what + " [" + c.String() + "]", Replay: map[string]any{"case": c.String(), "choices": choices, "index": i}})
			}}
		if !ex.Run() {
			res.Infra = ex.Diverged
		}
		if i < len(partB) && !ex.Exhaustive && ex.Violations == 0 {
			res.Capped = "deadline reached inside a part-B scenario"
		}
		res.Counts["executions"] = ex.Executions
		if i < len(partB) {
			res.Counts["executions_partB"] = ex.Executions
			res.Counts["conflicting"] = ex.Conflicting
		} else {
			res.Counts["executions_partA"] = ex.Executions
		}
		var ocs []string
		for oc := range outcomes {
			ocs = append(ocs, oc)
			switch {
			case strings.HasPrefix(oc, "no-block:ErrNoTxs") || strings.HasPrefix(oc, "no-block:no transactions"):
				res.Counts["no_block_built"]++
			case strings.HasPrefix(oc, "no-block:"):
				res.Counts["build_errors"]++
			case strings.HasPrefix(oc, "block:"):
				res.Counts["blocks_built_and_verified"]++
				var a, b int
				fmt.Sscanf(oc, "block:%d/%d", &a, &b)
				if a < b {
					res.Counts["blocks_where_builder_skipped_txs"]++
				}
			}
		}
		sort.Strings(ocs)
		if i%997 == 0 || (len(ocs) > 0 && strings.HasPrefix(ocs[0], "no-block:") && !strings.Contains(ocs[0], "ErrNoTxs") && i%13 == 0) {
			res.Sample = map[string]any{"case": c.String(), "outcomes": ocs}
		}
		return res
	}
	if len(os.Args) > 2 && os.Args[1] == "--one" {
		var i int
		fmt.Sscan(os.Args[2], &i)
		fmt.Printf("%+v\n", run(i))
		return
	}
	if idx, ok := evid.ReplayIndex(); ok {
		res := run(idx)
		fmt.Printf("replay scenario %d (%s): %d violation(s)\n", idx, res.Name, len(res.Violations))
		for _, v := range res.Violations {
			fmt.Println(" ", v.Key, v.What)
		}
		if len(res.Violations) > 0 {
			os.Exit(1)
		}
		os.Exit(0)
	}
	tot, _ := r.Sharded(len(partB)+nA, run)
	r.Cov["evaluations"] = tot["executions"]
	r.Cov["distinct_nontrivial"] = tot["blocks_where_builder_skipped_txs"] + tot["conflicting"]
	r.Cov["mempools_partA"] = nA
	r.Cov["blocks_built_and_verified"] = tot["blocks_built_and_verified"]
	r.Cov["blocks_where_builder_skipped_txs"] = tot["blocks_where_builder_skipped_txs"]
	r.Cov["no_block_built"] = tot["no_block_built"]
	r.Cov["build_errors_not_compared"] = tot["build_errors"]
	r.Cov["executions_partB"] = tot["executions_partB"]
	r.Cov["preemption_bound_partB"] = bBound
	r.Cov["rule"] = "part A: every mempool sequence of <=2 items from the 16-item menu, every 3-item sequence whose third item is one of 10 order-sensitive items (thorough: all 3-item sequences + reduced 4-item sequences) x {generous, tight compute limit} x parent {height 0, height 1 carrying a transaction} x builder cores {1,4} (verifier uses the other), plus 6 mempools of 300 transactions with special items at the stream-batch boundaries; part B: 5 two-item mempools, every interleaving of the build loop within the preemption bound; builder and verifier share the real TimeValidityWindow"
	r.Assumptions = []string{"clock frozen at the build time (the builder stamps blocks with now)", "TargetBuildDuration = 1 h so that the loop ends by draining the mempool or filling the block", "a build that returns an error produces no block and is counted, not compared"}
	r.Finish()
}
