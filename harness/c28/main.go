// C28: address text encoding round-trips and rejects malformed input.
// Exhaustive mutation closure over a fixed set of addresses.
package main

import (
	"encoding/hex"
	"fmt"
	"strings"

	"github.com/ava-labs/avalanchego/utils/hashing"

	"github.com/ava-labs/hypersdk/codec"
	"github.com/ava-labs/hypersdk/internal/vshim/evid"
)

func withChecksum(payload []byte) string {
	b := append(append([]byte{}, payload...), hashing.Checksum(payload, 4)...)
	return hex.EncodeToString(b)
}

func main() {
	r := evid.Start("C28", "exploration")
	evals, nontriv := 0, 0
	var addrs []codec.Address
	addrs = append(addrs, codec.EmptyAddress)
	for i := 0; i < 7; i++ {
		var a codec.Address
		for j := range a {
			switch i {
			case 0:
				a[j] = 0xff
			case 1:
				a[j] = byte(j)
			case 2:
				a[j] = byte(255 - j)
			case 3:
				a[j] = byte(j * 37)
			case 4:
				if j == 0 {
					a[j] = 1
				}
			case 5:
				if j == codec.AddressLen-1 {
					a[j] = 1
				}
			case 6:
				a[j] = 0xab
			}
		}
		addrs = append(addrs, a)
	}
	accept := func(s string) (codec.Address, bool) {
		a, err := codec.StringToAddress(s)
		var b codec.Address
		err2 := b.UnmarshalText([]byte(s))
		if (err == nil) != (err2 == nil) || (err == nil && a != b) {
			r.Violation("C28:string-vs-unmarshaltext", fmt.Sprintf("StringToAddress and UnmarshalText disagree on %q", s), map[string]any{"text": s})
		}
		return a, err == nil
	}
	// expectReject: s is not the checksummed encoding of a full-length address.
	expectReject := func(kind, s string) {
		evals++
		if a, ok := accept(s); ok {
			r.Violation("C28:accepts-"+kind, fmt.Sprintf("parsing %q succeeded (-> %s) although it is not the checksummed encoding of one full-length address", s, a), map[string]any{"text": s, "kind": kind})
			return
		}
		nontriv++
	}
	for _, a := range addrs {
		s := a.String()
		evals++
		got, ok := accept(s)
		if !ok || got != a {
			r.Violation("C28:roundtrip", fmt.Sprintf("address %x -> %q does not parse back", a[:], s), map[string]any{"text": s})
			continue
		}
		mt, _ := a.MarshalText()
		if string(mt) != s {
			r.Violation("C28:marshaltext-differs", "MarshalText != String", map[string]any{"text": s})
		}
		body := strings.TrimPrefix(s, "0x")
		// same bytes without prefix / upper-case hex are encodings of the same address:
		// if accepted they must denote the same address.
		for _, v := range []string{body, "0x" + strings.ToUpper(body), strings.ToUpper(body)} {
			evals++
			if g, ok := accept(v); ok && g != a {
				r.Violation("C28:variant-other-address", fmt.Sprintf("%q parses to a different address", v), map[string]any{"text": v})
			}
		}
		r.Sample(s)
		// every single-character substitution
		for i := 0; i < len(body); i++ {
			for _, c := range []byte("0f9agxF -") {
				if body[i] == c {
					continue
				}
				m := body[:i] + string(c) + body[i+1:]
				if strings.EqualFold(m, body) {
					continue
				}
				expectReject("substitution", "0x"+m)
				expectReject("substitution", m)
			}
			// every deletion
			expectReject("deletion", "0x"+body[:i]+body[i+1:])
			// every truncation
			expectReject("truncation", "0x"+body[:i])
			// every single insertion
			expectReject("insertion", "0x"+body[:i]+"0"+body[i:])
		}
		expectReject("suffix", s+"00")
		expectReject("suffix", s+"0")
		expectReject("prefix", "0x"+s)
		expectReject("prefix", "0X"+body)
		expectReject("prefix", " "+s)
		// payloads of every other length with a *valid* checksum
		for l := 0; l <= 40; l++ {
			if l == codec.AddressLen {
				continue
			}
			p := make([]byte, l)
			for j := range p {
				if j < codec.AddressLen {
					p[j] = a[j]
				} else {
					p[j] = byte(j)
				}
			}
			expectReject("wrong-length-payload", "0x"+withChecksum(p))
			expectReject("wrong-length-payload", withChecksum(p))
		}
	}
	expectReject("empty", "")
	expectReject("empty", "0x")
	r.Cov["evaluations"] = evals
	r.Cov["distinct_nontrivial"] = nontriv
	r.Cov["rule"] = "8 addresses: round trip; every single-char substitution from {0,f,9,a,g,x,F,space,-} at every position, every deletion, truncation, insertion, suffix/prefix garbage, and payloads of length 0..40 (!=33) with a recomputed valid checksum; non-trivial = malformed strings that were rejected"
	r.Assumptions = []string{"upper-case hex and a missing 0x prefix are treated as encodings of the same bytes (accepted if they parse to the same address)"}
	r.Finish()
}
