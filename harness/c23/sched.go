// C23 part B: concurrent add / expire / remove / pop against a running stream (the builder's
// StartStreaming, Stream, asynchronous PrepareStream, asynchronous FinishStreaming).
//
// The instrumented Mempool (every lock operation is a scheduling point) runs 2-4 threads; every
// interleaving is executed. Oracle: the per-operation results and the final private state must
// equal those of SOME sequential execution of the same operations that respects each thread's
// program order and the spawn/join edges (the structure itself, run sequentially, is the
// reference); every such sequential order is additionally pushed through part A's exec(), i.e.
// compared with the list/set model step by step, so the concurrent outcome is tied to the
// model's bounds, membership, hand-out and no-re-add rules.
package main

import (
	"fmt"
	"sort"
	"strings"

	"github.com/ava-labs/avalanchego/trace"

	"github.com/ava-labs/hypersdk/internal/mempool"
	"github.com/ava-labs/hypersdk/internal/vshim/evid"
	"github.com/ava-labs/hypersdk/internal/vshim/vsched"
	"github.com/ava-labs/hypersdk/verifh/rig"
)

// sop is an index into the shared ops table (see main.go), found by name.
func opIdx(name string) int {
	for i, o := range ops {
		if o.name == name {
			return i
		}
	}
	panic("unknown op " + name)
}

type sthread struct {
	name  string
	ops   []string
	after [2]int // started by thread after[0] once it has completed after[1] ops (-1: started by main)
	join  [2]int // thread join[0] waits for this thread before its op number join[1] (-1: nobody waits but main)
}

type sScenario struct {
	observe bool // outside the statement: outcomes are only counted (no reference, never a violation)
	name    string
	lim     int // index into limitCfgs
	pre     []string
	threads []sthread
}

func th(name string, ops ...string) sthread {
	return sthread{name: name, ops: ops, after: [2]int{-1, 0}, join: [2]int{-1, 0}}
}

func (t sthread) startedBy(thread, afterOps int) sthread {
	t.after = [2]int{thread, afterOps}
	return t
}
func (t sthread) joinedBy(thread, beforeOp int) sthread { t.join = [2]int{thread, beforeOp}; return t }

// items: a0 (sponsor 0, exp 1), a1 (sponsor 0, exp 2), b2 (sponsor 1, exp 3), b3 (sponsor 1, exp 1)
func sScenarios(thorough bool) []sScenario {
	scs := []sScenario{
		{false, "stream || add(streamed item) || expire", 6, []string{"add(a0)", "add(a1)"}, []sthread{
			th("builder", "start-streaming", "stream(1)", "stream(1)", "finish(restore first handed out)"),
			th("submit", "add(a0)", "add(b2)"),
			th("expire", "setmin(2)"),
		}},
		{false, "builder with asynchronous prepare and finish || add", 6, []string{"add(a0)", "add(a1)", "add(b2)"}, []sthread{
			th("builder", "start-streaming", "stream(1)", "stream(1)"),
			th("prepare", "prepare(1)").startedBy(0, 2).joinedBy(0, 2),
			th("finish", "finish(restore all handed out)").startedBy(0, 3),
			th("submit", "add(a0)", "add(b3)"),
		}},
		{false, "prepare || stream, joined before finish", 6, []string{"add(a0)", "add(a1)", "add(b2)"}, []sthread{
			th("builder", "start-streaming", "stream(1)", "stream(2)", "finish(restore all handed out)"),
			th("prepare", "prepare(1)").startedBy(0, 2).joinedBy(0, 3),
		}},
		{false, "stream || remove || pop at the item limit", 4, []string{"add(a0)", "add(b2)", "add(a1)"}, []sthread{
			th("builder", "start-streaming", "stream(2)", "finish(restore all handed out)"),
			th("remove", "remove(b2)", "add(b3)"),
			th("pop", "pop"),
		}},
		{false, "finish(restore) || add at the sponsor limit", 3, []string{"add(a0)", "add(b2)"}, []sthread{
			th("builder", "start-streaming", "stream(2)", "finish(restore all handed out)"),
			th("submit", "add(a1)", "add(b3)"),
		}},
		{false, "two submitters || expire (no stream)", 5, []string{"add(a0)"}, []sthread{
			th("s1", "add(a1)", "add(b2)"),
			th("s2", "add(b3)", "add(a1)"),
			th("expire", "setmin(2)", "setmin(3)"),
		}},
	}
	// OBSERVATION ONLY (liveness is not part of C23): the builder finishes a stream asynchronously; a second
	// build that calls StartStreaming before that FinishStreaming has taken the pool lock holds the pool
	// lock while waiting for the stream lock, and FinishStreaming then waits for the pool lock.
	scs = append(scs, sScenario{observe: true, name: "second StartStreaming || asynchronous FinishStreaming of the previous build (observation only)", lim: 6, pre: []string{"add(a0)", "add(a1)"}, threads: []sthread{
		th("builder", "start-streaming", "stream(1)", "start-streaming", "stream(1)", "finish(restore none)"),
		th("finish", "finish(restore all handed out)").startedBy(0, 2),
	}})
	if thorough {
		scs = append(scs,
			sScenario{false, "two streams in a row || add || expire", 6, []string{"add(a0)", "add(a1)", "add(b2)"}, []sthread{
				th("builder", "start-streaming", "stream(2)", "finish(restore first handed out)", "start-streaming", "stream(1)", "finish(restore none)"),
				th("submit", "add(a1)", "add(b3)"),
				th("expire", "setmin(2)"),
			}},
			sScenario{false, "asynchronous prepare and finish || add || expire || pop", 6, []string{"add(a0)", "add(a1)", "add(b2)", "add(b3)"}, []sthread{
				th("builder", "start-streaming", "stream(1)", "stream(1)"),
				th("prepare", "prepare(1)").startedBy(0, 2).joinedBy(0, 2),
				th("finish", "finish(restore first handed out)").startedBy(0, 3),
				th("submit", "add(a0)", "add(a1)"),
				th("expire", "setmin(2)", "pop"),
			}})
	}
	return scs
}

// sRun applies one operation to the real pool and returns what the caller observes. handed is the
// list of items the running stream has handed out (shared by the builder-side threads, which are
// ordered among themselves by spawn/join edges).
func sRun(mp *mempool.Mempool[*item], o opDef, handed *[]int) string {
	idsOf := func(xs []*item) []string {
		var out []string
		for _, x := range xs {
			for i, it := range items {
				if it == x {
					out = append(out, name(i))
					if o.kind == oStream {
						*handed = append(*handed, i)
					}
				}
			}
		}
		return out
	}
	switch o.kind {
	case oAdd:
		mp.Add(rig.Ctx, []*item{items[o.arg]})
	case oRemove:
		mp.Remove(rig.Ctx, []*item{items[o.arg]})
	case oSetMin:
		got := idsOf(mp.SetMinTimestamp(rig.Ctx, int64(o.arg)))
		sort.Strings(got)
		return strings.Join(got, ",")
	case oPop:
		got, ok := mp.PopNext(rig.Ctx)
		if !ok {
			return "none"
		}
		return idsOf([]*item{got})[0]
	case oStart:
		mp.StartStreaming(rig.Ctx)
		*handed = nil
	case oStream:
		return strings.Join(idsOf(mp.Stream(rig.Ctx, o.arg)), ",")
	case oPrepare:
		mp.PrepareStream(rig.Ctx, o.arg)
	case oFinish:
		var restore []*item
		switch o.arg {
		case 1:
			for _, x := range *handed {
				restore = append(restore, items[x])
			}
		case 2:
			if len(*handed) > 0 {
				restore = append(restore, items[(*handed)[0]])
			}
		}
		return fmt.Sprint(mp.FinishStreaming(rig.Ctx, restore))
	}
	return ""
}

func sFinal(mp *mempool.Mempool[*item], results [][]string) string {
	_, dump := mp.VerifDump()
	var sb strings.Builder
	for t, r := range results {
		fmt.Fprintf(&sb, "t%d[%s] ", t, strings.Join(r, ";"))
	}
	fmt.Fprintf(&sb, "| %s | len=%d size=%d", dump, mp.Len(rig.Ctx), mp.Size(rig.Ctx))
	for i := range items {
		fmt.Fprintf(&sb, " has(%s)=%v", name(i), mp.Has(rig.Ctx, items[i].id))
	}
	return sb.String()
}

// sSequential enumerates every sequential order allowed by program order and spawn/join edges;
// returns the set of observations and pushes each order through exec().
func sSequential(sc sScenario) (allowed map[string][]string, viol *string) {
	allowed = map[string][]string{}
	n := len(sc.threads)
	pos := make([]int, n)
	var order [][2]int
	var rec func()
	enabled := func(t int) bool {
		thd := sc.threads[t]
		if pos[t] >= len(thd.ops) {
			return false
		}
		if pos[t] == 0 && thd.after[0] >= 0 && pos[thd.after[0]] < thd.after[1] {
			return false
		}
		// joins: thread t must wait for every thread u with join = (t, pos[t]) or earlier
		for u, other := range sc.threads {
			if other.join[0] == t && pos[t] >= other.join[1] && pos[u] < len(other.ops) {
				return false
			}
		}
		return true
	}
	rec = func() {
		if viol != nil {
			return
		}
		done := true
		for t := 0; t < n; t++ {
			if pos[t] < len(sc.threads[t].ops) {
				done = false
			}
			if !enabled(t) {
				continue
			}
			order = append(order, [2]int{t, pos[t]})
			pos[t]++
			rec()
			pos[t]--
			order = order[:len(order)-1]
		}
		if !done {
			return
		}
		// run this order on a fresh real pool
		lim := limitCfgs[sc.lim]
		mp := mempool.New[*item](trace.Noop, lim.max, lim.sponsor)
		var handed []int
		h := []int{sc.lim}
		var names []string
		for _, p := range sc.pre {
			sRun(mp, ops[opIdx(p)], &handed)
			h = append(h, len(limitCfgs)+opIdx(p))
		}
		results := make([][]string, n)
		for _, st := range order {
			oi := opIdx(sc.threads[st[0]].ops[st[1]])
			results[st[0]] = append(results[st[0]], sRun(mp, ops[oi], &handed))
			h = append(h, len(limitCfgs)+oi)
			names = append(names, sc.threads[st[0]].name+":"+ops[oi].name)
		}
		allowed[sFinal(mp, results)] = names
		if res := exec(h); res.Violation != nil {
			s := fmt.Sprintf("%s: %s (sequential order %v)", res.Violation.Key, res.Violation.What, names)
			viol = &s
		}
	}
	rec()
	return allowed, viol
}

type sObs struct {
	final string
}

func sBody(sc sScenario, o **sObs) func() {
	return func() {
		ob := &sObs{}
		*o = ob
		lim := limitCfgs[sc.lim]
		mp := mempool.New[*item](trace.Noop, lim.max, lim.sponsor)
		var handed []int
		for _, p := range sc.pre {
			sRun(mp, ops[opIdx(p)], &handed)
		}
		n := len(sc.threads)
		results := make([][]string, n)
		doneCh := make([]chan struct{}, n)
		for t := range doneCh {
			doneCh[t] = vsched.Make[struct{}](1)
		}
		var start func(t int)
		start = func(t int) {
			vsched.Go(func() {
				thd := sc.threads[t]
				for k, on := range thd.ops {
					for u, other := range sc.threads {
						if other.join[0] == t && other.join[1] == k {
							vsched.Recv(doneCh[u])
						}
					}
					results[t] = append(results[t], sRun(mp, ops[opIdx(on)], &handed))
					for u, other := range sc.threads {
						if other.after[0] == t && other.after[1] == k+1 {
							start(u)
						}
					}
				}
				vsched.Send(doneCh[t], struct{}{})
			})
		}
		for t, thd := range sc.threads {
			if thd.after[0] < 0 {
				start(t)
			}
		}
		for t, thd := range sc.threads {
			if thd.join[0] < 0 {
				vsched.Recv(doneCh[t])
			}
		}
		ob.final = sFinal(mp, results)
	}
}

func runSchedules(r *evid.Run) {
	scs := sScenarios(r.Thorough())
	execs, conflicting, outcomes, orders := 0, 0, 0, 0
	bound := -1
	for si, sc := range scs {
		sc := sc
		if sc.observe {
			var o *sObs
			dl, fin := 0, 0
			ex := &vsched.Explorer{Body: sBody(sc, &o), MaxPreemptions: bound, MaxDeviations: -1, Stop: r.Expired,
				Check: func(out *vsched.Outcome) (string, string) {
					if out.Deadlock {
						dl++
					} else {
						fin++
					}
					return "", ""
				}}
			ex.Run()
			r.Cov["observation_outside_the_statement"] = fmt.Sprintf("%s: %d of %d explored schedules end in a deadlock (StartStreaming holds the pool lock while waiting for the stream lock), %d complete", sc.name, dl, dl+fin, fin)
			continue
		}
		allowed, sv := sSequential(sc)
		orders += len(allowed)
		if sv != nil {
			r.Violation("C23:sequential-order-of-a-schedule-scenario-violates-the-model", *sv+" ["+sc.name+"]", map[string]any{"scenario": si, "name": sc.name})
			continue
		}
		var o *sObs
		seen := map[string]bool{}
		ex := &vsched.Explorer{Body: sBody(sc, &o), MaxPreemptions: bound, MaxDeviations: -1, Stop: r.Expired, StopAtFirst: true,
			Check: func(out *vsched.Outcome) (string, string) {
				if out.Deadlock {
					return "deadlock", fmt.Sprintf("blocked: %v", out.Blocked)
				}
				if len(out.Panics) > 0 {
					return "panic", strings.Join(out.Panics, "; ")
				}
				if out.Horizon {
					return "livelock", "step horizon exceeded"
				}
				if _, ok := allowed[o.final]; !ok {
					var al []string
					for k := range allowed {
						al = append(al, k)
					}
					sort.Strings(al)
					if len(al) > 4 {
						al = al[:4]
					}
					return "concurrent-outcome-matches-no-sequential-order", fmt.Sprintf("observed %q; sequential executions of the same operations give e.g. %q", o.final, al)
				}
				seen[o.final] = true
				return "", ""
			},
			OnViolation: func(key, what string, choices []int, out *vsched.Outcome) {
				r.Violation("C23:"+key, what+" ["+sc.name+"]", map[string]any{"scenario": si, "name": sc.name, "choices": choices})
			}}
		if !ex.Run() {
			evid.Infra("schedule exploration diverged: %s", ex.Diverged)
		}
		if !ex.Exhaustive && ex.Violations == 0 {
			r.Cap("deadline reached inside a schedule scenario")
		}
		execs += ex.Executions
		conflicting += ex.Conflicting
		outcomes += len(seen)
		if si == 1 && len(ex.SampleTraces) > 0 {
			r.Sample(map[string]any{"scenario": sc.name, "schedule": ex.SampleTraces[0]})
		}
	}
	r.Cov["schedule_scenarios"] = len(scs)
	r.Cov["schedule_executions"] = execs
	r.Cov["schedule_executions_with_shared_objects"] = conflicting
	r.Cov["schedule_distinct_outcomes"] = outcomes
	r.Cov["schedule_sequential_reference_outcomes"] = orders
	r.Cov["schedule_preemption_bound"] = "unbounded"
}
