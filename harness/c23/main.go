// C23: the mempool keeps its bounds and ordering under any operation sequence.
// Explicit-state BFS over add/remove/expire/pop/stream/prepare/finish histories on the real
// Mempool (private state dumped white-box) against a list/set reference.
package main

import (
	"fmt"
	"sort"
	"strings"

	"github.com/ava-labs/avalanchego/ids"
	"github.com/ava-labs/avalanchego/trace"

	"github.com/ava-labs/hypersdk/codec"
	"github.com/ava-labs/hypersdk/internal/mempool"
	"github.com/ava-labs/hypersdk/internal/vshim/evid"
	"github.com/ava-labs/hypersdk/internal/vshim/seqx"
	"github.com/ava-labs/hypersdk/verifh/rig"
)

type item struct {
	id      ids.ID
	sponsor codec.Address
	size    int
	exp     int64
}

func (i *item) GetID() ids.ID             { return i.id }
func (i *item) GetExpiry() int64          { return i.exp }
func (i *item) GetSponsor() codec.Address { return i.sponsor }
func (i *item) Size() int                 { return i.size }

var items = []*item{
	{ids.ID{0xa0}, rig.Addr(0), 1, 1},
	{ids.ID{0xa1}, rig.Addr(0), 2, 2},
	{ids.ID{0xb2}, rig.Addr(1), 1, 3},
	{ids.ID{0xb3}, rig.Addr(1), 2, 1},
}

func name(i int) string { return fmt.Sprintf("%x", items[i].id[:1]) }

type limits struct{ max, sponsor int }

var limitCfgs = []limits{{1, 1}, {2, 1}, {2, 2}, {3, 1}, {3, 2}, {3, 3}, {4, 4}}

type opKind int

const (
	oAdd opKind = iota
	oRemove
	oSetMin
	oPop
	oStart
	oStream
	oPrepare
	oFinish
)

type opDef struct {
	kind opKind
	arg  int
	name string
}

var ops []opDef

func init() {
	for i := range items {
		ops = append(ops, opDef{oAdd, i, "add(" + name(i) + ")"})
	}
	for i := range items {
		ops = append(ops, opDef{oRemove, i, "remove(" + name(i) + ")"})
	}
	for t := 2; t <= 4; t++ {
		ops = append(ops, opDef{oSetMin, t, fmt.Sprintf("setmin(%d)", t)})
	}
	ops = append(ops, opDef{oPop, 0, "pop"}, opDef{oStart, 0, "start-streaming"},
		opDef{oStream, 1, "stream(1)"}, opDef{oStream, 2, "stream(2)"}, opDef{oPrepare, 1, "prepare(1)"},
		opDef{oFinish, 0, "finish(restore none)"}, opDef{oFinish, 1, "finish(restore all handed out)"}, opDef{oFinish, 2, "finish(restore first handed out)"})
}

func hist(h []int) []string {
	o := []string{}
	for i, x := range h {
		if i == 0 {
			o = append(o, fmt.Sprintf("limits{max:%d sponsor:%d}", limitCfgs[x].max, limitCfgs[x].sponsor))
		} else {
			o = append(o, ops[x-len(limitCfgs)].name)
		}
	}
	return o
}

// reference model
type model struct {
	queue      []int        // item indices in hand-out order
	givenBack  map[int]bool // items restored after a build and not handed out since
	streaming  bool
	streamed   map[int]bool
	handed     []int // handed out in this stream, in order
	prefetch   []int
	prefetched bool
	lim        limits
}

func (m *model) has(i int) bool {
	for _, x := range m.queue {
		if x == i {
			return true
		}
	}
	return false
}

func (m *model) sponsorCount(i int) int {
	n := 0
	for _, x := range m.queue {
		if items[x].sponsor == items[i].sponsor {
			n++
		}
	}
	return n
}

func (m *model) add(i int, front bool) {
	if m.streaming && m.streamed[i] {
		return
	}
	if m.has(i) || m.sponsorCount(i) >= m.lim.sponsor || len(m.queue) >= m.lim.max {
		return
	}
	if front {
		m.queue = append([]int{i}, m.queue...)
		m.givenBack[i] = true
	} else {
		m.queue = append(m.queue, i)
	}
}

func (m *model) drop(i int) {
	for k, x := range m.queue {
		if x == i {
			m.queue = append(append([]int{}, m.queue[:k]...), m.queue[k+1:]...)
			delete(m.givenBack, i)
			return
		}
	}
}

func (m *model) take(n int) []int {
	var out []int
	for len(out) < n && len(m.queue) > 0 {
		x := m.queue[0]
		m.drop(x)
		m.streamed[x] = true
		out = append(out, x)
	}
	return out
}

func exec(h []int) seqx.Result {
	if len(h) == 0 {
		en := make([]int, len(limitCfgs))
		for i := range en {
			en[i] = i
		}
		return seqx.Result{Key: "root", Enabled: en}
	}
	lim := limitCfgs[h[0]]
	mp := mempool.New[*item](trace.Noop, lim.max, lim.sponsor)
	m := &model{givenBack: map[int]bool{}, lim: lim}
	outcome := ""
	viol := func(key, what string) seqx.Result {
		return seqx.Result{Violation: &seqx.Violation{Key: "C23:" + key, What: what, Data: map[string]any{"history": hist(h)}}}
	}
	idsOf := func(xs []*item) []int {
		var o []int
		for _, x := range xs {
			for i, it := range items {
				if it == x {
					o = append(o, i)
				}
			}
		}
		return o
	}
	for step, oi := range h[1:] {
		o := ops[oi-len(limitCfgs)]
		switch o.kind {
		case oAdd:
			before := m.has(o.arg)
			mp.Add(rig.Ctx, []*item{items[o.arg]})
			m.add(o.arg, false)
			outcome = fmt.Sprint("add-accepted=", !before && m.has(o.arg))
			if m.streaming && m.streamed[o.arg] && mp.Has(rig.Ctx, items[o.arg].id) {
				return viol("streamed-item-re-added-during-stream", fmt.Sprintf("step %d: %s was handed out in the running stream and could be added again", step, name(o.arg)))
			}
		case oRemove:
			mp.Remove(rig.Ctx, []*item{items[o.arg]})
			m.drop(o.arg)
			outcome = "remove"
		case oSetMin:
			got := idsOf(mp.SetMinTimestamp(rig.Ctx, int64(o.arg)))
			var want []int
			for _, x := range append([]int{}, m.queue...) {
				if items[x].exp < int64(o.arg) {
					want = append(want, x)
					m.drop(x)
				}
			}
			sort.Ints(got)
			sort.Ints(want)
			if fmt.Sprint(got) != fmt.Sprint(want) {
				return viol("expiry-removes-wrong-set", fmt.Sprintf("step %d %s removed %v, expected %v", step, o.name, got, want))
			}
			outcome = fmt.Sprint("expire-", len(want))
		case oPop:
			peek, pok := mp.PeekNext(rig.Ctx)
			got, ok := mp.PopNext(rig.Ctx)
			if pok != ok || (ok && peek != got) {
				return viol("peek-differs-from-pop", fmt.Sprintf("step %d", step))
			}
			if ok != (len(m.queue) > 0) {
				return viol("pop-emptiness", fmt.Sprintf("step %d: pop ok=%v, model has %d items", step, ok, len(m.queue)))
			}
			if ok {
				gi := idsOf([]*item{got})[0]
				if err := m.checkHandOut(gi); err != "" {
					return viol("hand-out-order", fmt.Sprintf("step %d pop handed out %s: %s", step, name(gi), err))
				}
				m.drop(gi)
			}
			outcome = fmt.Sprint("pop-", ok)
		case oStart:
			mp.StartStreaming(rig.Ctx)
			m.streaming, m.streamed, m.handed = true, map[int]bool{}, nil
			outcome = "start"
		case oStream:
			got := idsOf(mp.Stream(rig.Ctx, o.arg))
			var want []int
			if m.prefetched {
				want, m.prefetch, m.prefetched = m.prefetch, nil, false
			} else {
				// hand-out order is checked item by item against the model's ordering rule
				for _, gi := range got {
					if !m.has(gi) {
						return viol("stream-hands-out-absent-item", fmt.Sprintf("step %d: %s", step, name(gi)))
					}
					if err := m.checkHandOut(gi); err != "" {
						return viol("hand-out-order", fmt.Sprintf("step %d stream handed out %s: %s", step, name(gi), err))
					}
					m.drop(gi)
					m.streamed[gi] = true
				}
				wantN := o.arg
				if wantN > len(got)+len(m.queue) {
					wantN = len(got) + len(m.queue)
				}
				if len(got) != wantN {
					return viol("stream-count", fmt.Sprintf("step %d %s returned %d items, expected %d", step, o.name, len(got), wantN))
				}
				want = got
			}
			if fmt.Sprint(got) != fmt.Sprint(want) {
				return viol("stream-differs-from-prefetch", fmt.Sprintf("step %d: stream returned %v, prefetched %v", step, got, want))
			}
			for _, gi := range got {
				for _, hx := range m.handed {
					if hx == gi {
						return viol("item-handed-out-twice-in-one-stream", fmt.Sprintf("step %d: %s", step, name(gi)))
					}
				}
				m.handed = append(m.handed, gi)
			}
			outcome = fmt.Sprint("stream-", len(got))
		case oPrepare:
			mp.PrepareStream(rig.Ctx, o.arg)
			if m.prefetched {
				// a second prepare overwrites the first prefetch: those items are neither in the pool
				// nor handed out; mirror (they stay "streamed")
			}
			m.prefetch = m.take(o.arg)
			m.prefetched = true
			outcome = "prepare"
		case oFinish:
			var restore []*item
			var ridx []int
			switch o.arg {
			case 1:
				ridx = append(ridx, m.handed...)
			case 2:
				if len(m.handed) > 0 {
					ridx = append(ridx, m.handed[0])
				}
			}
			for _, x := range ridx {
				restore = append(restore, items[x])
			}
			mp.FinishStreaming(rig.Ctx, restore)
			m.streaming, m.streamed = false, nil
			for _, x := range ridx {
				m.add(x, true)
			}
			if m.prefetched {
				for _, x := range m.prefetch {
					m.add(x, true)
				}
				m.prefetch, m.prefetched = nil, false
			}
			m.handed = nil
			outcome = fmt.Sprint("finish-", len(ridx))
		}
		// invariants on the real pool after every step
		q, _ := mp.VerifDump()
		seen := map[string]bool{}
		size := 0
		perSponsor := map[string]int{}
		for _, idn := range q {
			if seen[idn] {
				return viol("duplicate-id-held", fmt.Sprintf("step %d %s: queue %v", step, o.name, q))
			}
			seen[idn] = true
			for _, it := range items {
				if fmt.Sprintf("%x", it.id[:1]) == idn {
					size += it.size
					perSponsor[fmt.Sprintf("%x", it.sponsor[:2])]++
				}
			}
		}
		if len(q) > lim.max {
			return viol("item-limit-exceeded", fmt.Sprintf("step %d %s: holds %d items, limit %d", step, o.name, len(q), lim.max))
		}
		for sp, n := range perSponsor {
			if n > lim.sponsor {
				return viol("sponsor-limit-exceeded", fmt.Sprintf("step %d %s: sponsor %s holds %d items, limit %d", step, o.name, sp, n, lim.sponsor))
			}
		}
		if mp.Size(rig.Ctx) != size {
			return viol("byte-size-differs-from-sum", fmt.Sprintf("step %d %s: Size()=%d, held items sum to %d", step, o.name, mp.Size(rig.Ctx), size))
		}
		if mp.Len(rig.Ctx) != len(q) {
			return viol("len-differs", fmt.Sprintf("step %d %s: Len()=%d queue %d", step, o.name, mp.Len(rig.Ctx), len(q)))
		}
		ow := mp.VerifOwned()
		for sp, n := range perSponsor {
			if ow[sp] != n {
				return viol("sponsor-count-drift", fmt.Sprintf("step %d %s: sponsor %s counted %d, holds %d", step, o.name, sp, ow[sp], n))
			}
		}
		for sp, n := range ow {
			if perSponsor[sp] != n {
				return viol("sponsor-count-drift", fmt.Sprintf("step %d %s: sponsor %s counted %d, holds %d", step, o.name, sp, n, perSponsor[sp]))
			}
		}
		// membership equals the model's set; ordering rule: given-back items first, others in arrival order
		ms := []string{}
		for _, x := range m.queue {
			ms = append(ms, name(x))
		}
		a, b := append([]string{}, q...), append([]string{}, ms...)
		sort.Strings(a)
		sort.Strings(b)
		if strings.Join(a, ",") != strings.Join(b, ",") {
			return viol("held-set-differs-from-model", fmt.Sprintf("step %d %s: pool holds %v, model %v", step, o.name, q, ms))
		}
		// re-order the model's given-back prefix to the pool's order (their mutual order is unspecified)
		if err := m.adoptOrder(q); err != "" {
			return viol("ordering", fmt.Sprintf("step %d %s: %s (pool %v, model %v)", step, o.name, err, q, ms))
		}
		for i := range items {
			if mp.Has(rig.Ctx, items[i].id) != m.has(i) {
				return viol("has-differs", fmt.Sprintf("step %d: Has(%s)", step, name(i)))
			}
		}
	}
	// enabled operations
	var en []int
	for j, o := range ops {
		switch o.kind {
		case oStart:
			if m.streaming {
				continue
			}
		case oStream, oPrepare, oFinish:
			if !m.streaming {
				continue
			}
			if o.kind == oPrepare && m.prefetched {
				continue // the builder never prepares twice without streaming in between
			}
		}
		en = append(en, len(limitCfgs)+j)
	}
	_, dump := mp.VerifDump()
	gb := []string{}
	for x := range m.givenBack {
		gb = append(gb, name(x))
	}
	sort.Strings(gb)
	return seqx.Result{Key: fmt.Sprintf("%d/%d|%s|G%v|H%v", lim.max, lim.sponsor, dump, gb, m.handed), Enabled: en, Outcome: outcome}
}

// checkHandOut: the item handed out must be a legal head: a given-back item if any is held,
// else the oldest arrival.
func (m *model) checkHandOut(i int) string {
	if len(m.queue) == 0 {
		return "pool is empty in the model"
	}
	anyGB := false
	for _, x := range m.queue {
		if m.givenBack[x] {
			anyGB = true
		}
	}
	if anyGB {
		if !m.givenBack[i] {
			return "an item given back after a build is still held and must be handed out first"
		}
		return ""
	}
	if m.queue[0] != i {
		return fmt.Sprintf("not the oldest arrival (%s)", name(m.queue[0]))
	}
	return ""
}

// adoptOrder checks the ordering rule against the pool's actual order and adopts the pool's
// order for the given-back prefix.
func (m *model) adoptOrder(q []string) string {
	idx := map[string]int{}
	for i := range items {
		idx[name(i)] = i
	}
	var order []int
	for _, s := range q {
		order = append(order, idx[s])
	}
	seenPlain := false
	var plain []int
	for _, x := range order {
		if m.givenBack[x] {
			if seenPlain {
				return "a given-back item is queued behind an ordinary arrival"
			}
		} else {
			seenPlain = true
			plain = append(plain, x)
		}
	}
	var mplain []int
	for _, x := range m.queue {
		if !m.givenBack[x] {
			mplain = append(mplain, x)
		}
	}
	if fmt.Sprint(plain) != fmt.Sprint(mplain) {
		return "ordinary arrivals are not in arrival order"
	}
	m.queue = order
	return ""
}

func main() {
	r := evid.Start("C23", "model_checking")
	if evid.RacePass() {
		for _, sc := range sScenarios(true) {
			if sc.observe {
				continue // can deadlock for real when run free
			}
			var o *sObs
			b := sBody(sc, &o)
			for i := 0; i < evid.Pick(r, 300, 3000); i++ {
				b()
			}
		}
		return
	}
	runSchedules(r)
	depth := evid.Pick(r, 8, 11)
	s := &seqx.Search{Exec: exec, MaxDepth: depth, Stop: r.Expired,
		OnViolation: func(h []int, v *seqx.Violation) {
			r.Violation(v.Key, v.What, map[string]any{"history": hist(h), "ops": h})
		}}
	st := s.Run()
	if !st.Complete {
		r.Cap("deadline reached before the depth bound")
	}
	for _, h := range st.Samples {
		r.Sample(hist(h))
	}
	r.Cov["states"] = st.States
	r.Cov["transitions"] = st.Transitions
	r.Cov["traces_validated_against_impl"] = st.Transitions
	r.Cov["max_depth"] = st.MaxDepth
	r.Cov["distinct_outcomes"] = len(st.Outcomes)
	r.Cov["outcomes"] = st.Outcomes
	r.Cov["frontier_unexpanded_at_bound"] = st.Frontier
	r.Cov["bounds"] = map[string]any{"depth": depth, "limit_configs": len(limitCfgs), "ops": len(ops), "items": len(items)}
	r.Cov["explanation"] = "every transition executes the real Mempool (fresh instance, history replayed); bounds, byte size, sponsor counters, membership, expiry sets and the hand-out ordering rule are checked after every step; dedup key = white-box dump of the private state"
	r.Assumptions = []string{"4 items (2 sponsors, sizes 1-2, expiries 1-3), 7 limit configurations", "one stream at a time (StartStreaming only when no stream is open and the previous FinishStreaming has returned)", "schedule part: 6 (thorough 8) scenarios of 2-5 threads, all interleavings of the instrumented pool's lock operations; reference = every sequential order of the same operations on the real pool, each also checked against the model", "a full pool or sponsor drops the new item (documented behaviour); mutual order of given-back items is unspecified"}
	r.Finish()
}
