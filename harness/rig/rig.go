// Package rig is the shared chain test rig of the /verif harnesses: scripted actions, an
// in-memory merkledb parent state, transaction/block constructors and the *sequential
// reference executor* ("apply the transactions one at a time in block order").
package rig

import (
	"context"
	"encoding/binary"
	"errors"
	"fmt"
	"sort"
	"strings"
	"time"

	"github.com/ava-labs/avalanchego/database"
	"github.com/ava-labs/avalanchego/database/memdb"
	"github.com/ava-labs/avalanchego/ids"
	"github.com/ava-labs/avalanchego/trace"
	"github.com/ava-labs/avalanchego/utils/logging"
	"github.com/ava-labs/avalanchego/x/merkledb"
	"github.com/prometheus/client_golang/prometheus"

	"github.com/ava-labs/hypersdk/chain"
	"github.com/ava-labs/hypersdk/chain/chaintest"
	"github.com/ava-labs/hypersdk/codec"
	"github.com/ava-labs/hypersdk/fees"
	"github.com/ava-labs/hypersdk/genesis"
	ifees "github.com/ava-labs/hypersdk/internal/fees"
	"github.com/ava-labs/hypersdk/internal/mempool"
	"github.com/ava-labs/hypersdk/internal/workers"
	"github.com/ava-labs/hypersdk/state"
	"github.com/ava-labs/hypersdk/state/balance"
	"github.com/ava-labs/hypersdk/state/metadata"
	"github.com/ava-labs/hypersdk/state/tstate"
)

// ---------------------------------------------------------------- scripted action

type StepKind uint8

const (
	Get StepKind = iota
	Put
	Del
	Fail
	Copy   // Val holds the destination key: dst := value(Key) (dst deleted if Key is absent)
	Append // Key := value(Key) + Val (creates the key if absent)
)

type Step struct {
	Kind StepKind
	Key  string
	Val  []byte
}

var ErrScriptFail = errors.New("scripted failure")

// OpAction is a chain.Action with a declared key->permission map and a script of
// get/put/del/fail steps. Its output is the concatenation of the values it read.
type OpAction struct {
	Declared []KeyPerm
	Script   []Step
	Compute  uint64
	Nonce    uint64
	Start    int64
	End      int64
}

type KeyPerm struct {
	Key  string
	Perm state.Permissions
}

const OpActionID = 7

func (*OpAction) GetTypeID() uint8 { return OpActionID }

func (a *OpAction) ValidRange(chain.Rules) (int64, int64) { return a.Start, a.End }

func (a *OpAction) ComputeUnits(chain.Rules) uint64 { return a.Compute }

func (a *OpAction) Bytes() []byte {
	b := []byte{OpActionID}
	b = binary.BigEndian.AppendUint64(b, a.Compute)
	b = binary.BigEndian.AppendUint64(b, a.Nonce)
	b = binary.BigEndian.AppendUint64(b, uint64(a.Start))
	b = binary.BigEndian.AppendUint64(b, uint64(a.End))
	b = append(b, byte(len(a.Declared)))
	for _, d := range a.Declared {
		b = append(b, byte(len(d.Key)))
		b = append(b, d.Key...)
		b = append(b, byte(d.Perm))
	}
	b = append(b, byte(len(a.Script)))
	for _, s := range a.Script {
		b = append(b, byte(s.Kind), byte(len(s.Key)))
		b = append(b, s.Key...)
		b = binary.BigEndian.AppendUint32(b, uint32(len(s.Val)))
		b = append(b, s.Val...)
	}
	return b
}

func (a *OpAction) StateKeys(codec.Address, ids.ID) state.Keys {
	ks := state.Keys{}
	for _, d := range a.Declared {
		ks[d.Key] |= d.Perm
	}
	return ks
}

func (a *OpAction) Execute(ctx context.Context, _ chain.Rules, mu state.Mutable, _ int64, _ codec.Address, _ ids.ID) ([]byte, error) {
	var out []byte
	for _, s := range a.Script {
		switch s.Kind {
		case Get:
			v, err := mu.GetValue(ctx, []byte(s.Key))
			if errors.Is(err, database.ErrNotFound) {
				out = append(out, '-')
				continue
			}
			if err != nil {
				return nil, err
			}
			out = append(out, v...)
		case Put:
			if err := mu.Insert(ctx, []byte(s.Key), s.Val); err != nil {
				return nil, err
			}
		case Del:
			if err := mu.Remove(ctx, []byte(s.Key)); err != nil {
				return nil, err
			}
		case Fail:
			return nil, ErrScriptFail
		case Copy:
			v, err := mu.GetValue(ctx, []byte(s.Key))
			if errors.Is(err, database.ErrNotFound) {
				if err := mu.Remove(ctx, s.Val); err != nil {
					return nil, err
				}
				continue
			}
			if err != nil {
				return nil, err
			}
			if err := mu.Insert(ctx, s.Val, v); err != nil {
				return nil, err
			}
		case Append:
			v, err := mu.GetValue(ctx, []byte(s.Key))
			if err != nil && !errors.Is(err, database.ErrNotFound) {
				return nil, err
			}
			nv := append(append([]byte{}, v...), s.Val...)
			if err := mu.Insert(ctx, []byte(s.Key), nv); err != nil {
				return nil, err
			}
		}
	}
	return out, nil
}

func (a *OpAction) String() string {
	var sb strings.Builder
	sb.WriteString("{decl:")
	for _, d := range a.Declared {
		fmt.Fprintf(&sb, "%s=%s,", KeyName(d.Key), d.Perm)
	}
	sb.WriteString(" script:")
	for _, s := range a.Script {
		switch s.Kind {
		case Get:
			fmt.Fprintf(&sb, "get(%s);", KeyName(s.Key))
		case Put:
			fmt.Fprintf(&sb, "put(%s,%q);", KeyName(s.Key), s.Val)
		case Del:
			fmt.Fprintf(&sb, "del(%s);", KeyName(s.Key))
		case Fail:
			sb.WriteString("fail;")
		case Copy:
			fmt.Fprintf(&sb, "copy(%s->%s);", KeyName(s.Key), KeyName(string(s.Val)))
		case Append:
			fmt.Fprintf(&sb, "append(%s,%q);", KeyName(s.Key), s.Val)
		}
	}
	sb.WriteString("}")
	return sb.String()
}

// Key builds a size-suffixed state key with prefix 0xEE (outside balance/metadata prefixes).
func Key(name string, chunks uint16) string {
	b := append([]byte{0xEE}, name...)
	return string(binary.BigEndian.AppendUint16(b, chunks))
}

// KeyName renders a key made by Key.
func KeyName(k string) string {
	if len(k) >= 3 && k[0] == 0xEE {
		return fmt.Sprintf("%s/%d", k[1:len(k)-2], binary.BigEndian.Uint16([]byte(k[len(k)-2:])))
	}
	return fmt.Sprintf("%x", k)
}

// ---------------------------------------------------------------- environment

// Env bundles rules, handlers and a genesis-like parent state on an in-memory merkledb.
type Env struct {
	Rules   *genesis.Rules
	RF      chain.RuleFactory
	MM      metadata.MetadataManager
	BH      chain.BalanceHandler
	DB      merkledb.MerkleDB
	Addrs   []codec.Address
	Metrics *chain.ChainMetrics
}

var Ctx = context.Background()

// Addr returns the i-th test account.
func Addr(i int) codec.Address {
	var a codec.Address
	a[0] = chaintest.TestAuthTypeID
	a[1] = byte(i + 1)
	a[32] = byte(i + 1)
	return a
}

// EnvConfig parametrises NewEnv.
type EnvConfig struct {
	Rules     *genesis.Rules // nil = defaults with generous limits
	BH        chain.BalanceHandler
	Balances  []uint64          // per account
	State     map[string][]byte // extra parent keys
	Height    uint64
	Timestamp int64 // parent state timestamp (ms)
	FeeState  []byte // nil = min prices
	Funded    map[codec.Address]uint64 // extra funded accounts (e.g. real-key addresses)
}

// DefaultRules returns default rules with large block limits so that units never bind unless
// a harness wants them to.
func DefaultRules() *genesis.Rules {
	r := genesis.NewDefaultRules()
	r.WindowTargetUnits = fees.Dimensions{1 << 40, 1 << 40, 1 << 40, 1 << 40, 1 << 40}
	r.MaxBlockUnits = fees.Dimensions{1 << 40, 1 << 40, 1 << 40, 1 << 40, 1 << 40}
	r.MinUnitPrice = fees.Dimensions{1, 1, 1, 1, 1}
	return r
}

func NewEnv(c EnvConfig) *Env {
	e := &Env{Rules: c.Rules, BH: c.BH, MM: metadata.NewDefaultManager()}
	if e.Rules == nil {
		e.Rules = DefaultRules()
	}
	if e.BH == nil {
		e.BH = balance.NewPrefixBalanceHandler([]byte{metadata.DefaultMinimumPrefix})
	}
	e.RF = &genesis.ImmutableRuleFactory{Rules: e.Rules}
	db, err := merkledb.New(Ctx, memdb.New(), merkledb.Config{BranchFactor: merkledb.BranchFactor16, Tracer: trace.Noop})
	must(err)
	e.DB = db
	store := &mapMutable{m: map[string][]byte{}}
	for i, b := range c.Balances {
		e.Addrs = append(e.Addrs, Addr(i))
		if b > 0 {
			must(e.BH.AddBalance(Ctx, Addr(i), store, b))
		}
	}
	for a, b := range c.Funded {
		must(e.BH.AddBalance(Ctx, a, store, b))
	}
	for k, v := range c.State {
		store.m[k] = v
	}
	store.m[string(chain.HeightKey(e.MM.HeightPrefix()))] = binary.BigEndian.AppendUint64(nil, c.Height)
	store.m[string(chain.TimestampKey(e.MM.TimestampPrefix()))] = binary.BigEndian.AppendUint64(nil, uint64(c.Timestamp))
	fs := c.FeeState
	if fs == nil {
		fm := ifees.NewManager(nil)
		for d := fees.Dimension(0); d < fees.FeeDimensions; d++ {
			fm.SetUnitPrice(d, e.Rules.MinUnitPrice[d])
		}
		fs = fm.Bytes()
	}
	store.m[string(chain.FeeKey(e.MM.FeePrefix()))] = fs
	for k, v := range store.m {
		must(db.Put([]byte(k), v))
	}
	m, err := chain.NewMetrics(prometheus.NewRegistry())
	must(err)
	e.Metrics = m
	return e
}

func must(err error) {
	if err != nil {
		panic(err)
	}
}

type mapMutable struct{ m map[string][]byte }

func (s *mapMutable) GetValue(_ context.Context, k []byte) ([]byte, error) {
	if v, ok := s.m[string(k)]; ok {
		return v, nil
	}
	return nil, database.ErrNotFound
}
func (s *mapMutable) Insert(_ context.Context, k, v []byte) error { s.m[string(k)] = v; return nil }
func (s *mapMutable) Remove(_ context.Context, k []byte) error    { delete(s.m, string(k)); return nil }

// NewProcessor builds a real chain.Processor on this environment.
func (e *Env) NewProcessor(cores, fetchers int, w workers.Workers, vw chain.ValidityWindow, engines chain.AuthEngines) *chain.Processor {
	cfg := chain.NewDefaultConfig()
	cfg.TransactionExecutionCores = cores
	cfg.StateFetchConcurrency = fetchers
	if engines == nil {
		engines = chaintest.NewDummyTestAuthEngines()
	}
	return chain.NewProcessor(trace.Noop, logging.NoLog{}, e.RF, w, engines, e.MM, e.BH, vw, e.Metrics, cfg)
}

// TxOpts are per-transaction knobs.
type TxOpts struct {
	Expiry     int64 // 0 = block timestamp rounded up to a second + 1s
	ChainID    *ids.ID
	MaxFee     uint64
	BadSig     bool
	Actor      *codec.Address
	AuthUnits  uint64
	AuthStart  int64
	AuthEnd    int64
	HasAuthRng bool
}

// MakeTx builds a transaction sponsored by account `sponsor` with a chaintest.TestAuth.
func (e *Env) MakeTx(sponsor int, actions []chain.Action, blockTs int64, o TxOpts) *chain.Transaction {
	exp := o.Expiry
	if exp == 0 {
		exp = (blockTs/1000 + 2) * 1000
	}
	cid := e.Rules.GetChainID()
	if o.ChainID != nil {
		cid = *o.ChainID
	}
	mf := o.MaxFee
	if mf == 0 {
		mf = 1 << 50
	}
	a := &chaintest.TestAuth{NumComputeUnits: 1, ActorAddress: Addr(sponsor), SponsorAddress: Addr(sponsor), ShouldErr: o.BadSig, Start: -1, End: -1}
	if o.AuthUnits != 0 {
		a.NumComputeUnits = o.AuthUnits
	}
	if o.HasAuthRng {
		a.Start, a.End = o.AuthStart, o.AuthEnd
	}
	if o.Actor != nil {
		a.ActorAddress = *o.Actor
	}
	tx, err := chain.NewTransaction(chain.Base{Timestamp: exp, ChainID: cid, MaxFee: mf}, actions, a)
	must(err)
	return tx
}

// MakeBlock builds an execution block on top of parentView (whose root becomes the block's
// state root).
func (e *Env) MakeBlock(parentView merkledb.View, parentID ids.ID, height uint64, ts int64, txs []*chain.Transaction) *chain.ExecutionBlock {
	root, err := parentView.GetMerkleRoot(Ctx)
	must(err)
	sb, err := chain.NewStatelessBlock(parentID, ts, height, txs, root, nil)
	must(err)
	return chain.NewExecutionBlock(sb)
}

// ---------------------------------------------------------------- sequential reference

// SeqOutcome is the result of applying a block's transactions one at a time in block order.
type SeqOutcome struct {
	Err      error
	Results  []*chain.Result
	Prices   fees.Dimensions
	Consumed fees.Dimensions
	Changes  map[string]*[]byte // key -> new value (nil = deleted), relative to the parent
	Reads    map[string]bool
}

type recView struct {
	im    state.Immutable
	reads map[string]bool
}

func (r recView) GetValue(ctx context.Context, k []byte) ([]byte, error) {
	r.reads[string(k)] = true
	return r.im.GetValue(ctx, k)
}

// SeqExecute is the reference: no executor, no prefetcher, no workers — a plain loop that
// applies each transaction to one TState in block order, then writes the block metadata.
func (e *Env) SeqExecute(parent state.Immutable, b *chain.ExecutionBlock) *SeqOutcome {
	out := &SeqOutcome{Changes: map[string]*[]byte{}, Reads: map[string]bool{}}
	r := e.RF.GetRules(b.Tmstmp)
	pv := recView{parent, out.Reads}
	get64 := func(k []byte) (uint64, error) {
		raw, err := parent.GetValue(Ctx, k)
		if err != nil {
			return 0, err
		}
		return database.ParseUInt64(raw)
	}
	ph, err := get64(chain.HeightKey(e.MM.HeightPrefix()))
	if err != nil {
		out.Err = err
		return out
	}
	if b.Hght != ph+1 {
		out.Err = chain.ErrInvalidBlockHeight
		return out
	}
	pts, err := get64(chain.TimestampKey(e.MM.TimestampPrefix()))
	if err != nil {
		out.Err = err
		return out
	}
	if b.Tmstmp < int64(pts)+r.GetMinBlockGap() {
		out.Err = chain.ErrTimestampTooEarly
		return out
	}
	if len(b.Txs) == 0 && b.Tmstmp < int64(pts)+r.GetMinEmptyBlockGap() {
		out.Err = chain.ErrTimestampTooEarlyEmptyBlock
		return out
	}
	feeRaw, err := parent.GetValue(Ctx, chain.FeeKey(e.MM.FeePrefix()))
	if err != nil {
		out.Err = err
		return out
	}
	fm := ifees.NewManager(feeRaw).ComputeNext(b.Tmstmp, r)
	ts := tstate.New(0)
	for _, tx := range b.Txs {
		if err := tx.VerifyAuth(Ctx); err != nil {
			out.Err = fmt.Errorf("signature: %w", err)
			return out
		}
	}
	for _, tx := range b.Txs {
		sk, err := tx.StateKeys(e.BH)
		if err != nil {
			out.Err = err
			return out
		}
		units, err := tx.Units(e.BH, r)
		if err != nil {
			out.Err = err
			return out
		}
		if ok, _ := fm.Consume(units, r.GetMaxBlockUnits()); !ok {
			out.Err = chain.ErrInvalidUnitsConsumed
			return out
		}
		tsv := ts.NewView(sk, pv, 0)
		if err := tx.PreExecute(Ctx, fm, e.BH, r, tsv, b.Tmstmp); err != nil {
			out.Err = err
			return out
		}
		res, err := tx.Execute(Ctx, fm, e.BH, r, tsv, b.Tmstmp)
		if err != nil {
			out.Err = err
			return out
		}
		out.Results = append(out.Results, res)
		tsv.Commit()
	}
	tsv := ts.NewView(state.CompletePermissions, state.ImmutableStorage(map[string][]byte{}), 0)
	must(tsv.Insert(Ctx, chain.HeightKey(e.MM.HeightPrefix()), binary.BigEndian.AppendUint64(nil, b.Hght)))
	must(tsv.Insert(Ctx, chain.TimestampKey(e.MM.TimestampPrefix()), binary.BigEndian.AppendUint64(nil, uint64(b.Tmstmp))))
	must(tsv.Insert(Ctx, chain.FeeKey(e.MM.FeePrefix()), fm.Bytes()))
	tsv.Commit()
	for k, v := range ts.ChangedKeys() {
		if v.IsNothing() {
			out.Changes[k] = nil
		} else {
			b := append([]byte{}, v.Value()...)
			out.Changes[k] = &b
		}
	}
	out.Prices = fm.UnitPrices()
	out.Consumed = fm.UnitsConsumed()
	return out
}

// Dump returns the full key/value content of a view restricted to `keys` (merkledb views have
// no iterator over uncommitted changes that is cheap, so callers pass the key universe).
func Dump(v state.Immutable, keys []string) map[string]string {
	out := map[string]string{}
	for _, k := range keys {
		val, err := v.GetValue(Ctx, []byte(k))
		if err == nil {
			out[k] = string(val)
		} else if !errors.Is(err, database.ErrNotFound) {
			out[k] = "ERR:" + err.Error()
		}
	}
	return out
}

// ResultString renders a result for comparison.
func ResultString(r *chain.Result) string {
	if r == nil {
		return "<nil>"
	}
	return fmt.Sprintf("ok=%v err=%q out=%q units=%v fee=%d", r.Success, r.Error, r.Outputs, r.Units, r.Fee)
}

// ChangesString renders a change set deterministically.
func ChangesString(c map[string]*[]byte) string {
	ks := make([]string, 0, len(c))
	for k := range c {
		ks = append(ks, k)
	}
	sort.Strings(ks)
	var sb strings.Builder
	for _, k := range ks {
		if c[k] == nil {
			fmt.Fprintf(&sb, "%x=DEL;", k)
		} else {
			fmt.Fprintf(&sb, "%x=%x;", k, *c[k])
		}
	}
	return sb.String()
}


// NewEnvLite builds an Env without a merkledb (for harnesses that work on plain maps).
func NewEnvLite(rules *genesis.Rules, bh chain.BalanceHandler) *Env {
	e := &Env{Rules: rules, BH: bh, MM: metadata.NewDefaultManager()}
	if e.Rules == nil {
		e.Rules = DefaultRules()
	}
	if e.BH == nil {
		e.BH = balance.NewPrefixBalanceHandler([]byte{metadata.DefaultMinimumPrefix})
	}
	e.RF = &genesis.ImmutableRuleFactory{Rules: e.Rules}
	return e
}

// NewBuilder builds a real chain.Builder on this environment.
func (e *Env) NewBuilder(mp chain.Mempool, vw chain.ValidityWindow, cores int, targetTxsSize int) *chain.Builder {
	cfg := chain.NewDefaultConfig()
	cfg.TransactionExecutionCores = cores
	cfg.TargetBuildDuration = time.Hour // the loop ends when the mempool is drained or the block is full
	if targetTxsSize > 0 {
		cfg.TargetTxsSize = targetTxsSize
	}
	return chain.NewBuilder(trace.Noop, e.RF, logging.NoLog{}, e.MM, e.BH, mp, vw, e.Metrics, cfg)
}

// NewMempool returns a real mempool.
func NewMempool(maxSize, maxSponsor int) *mempool.Mempool[*chain.Transaction] {
	return mempool.New[*chain.Transaction](trace.Noop, maxSize, maxSponsor)
}

// NewPreExecutor returns the real admission pre-executor.
func (e *Env) NewPreExecutor(vw chain.ValidityWindow) *chain.PreExecutor {
	return chain.NewPreExecutor(e.RF, vw, e.MM, e.BH)
}

// ParentOutput wraps the environment's database as the output of a parent block with the
// given header (for Builder.BuildBlock).
func (e *Env) ParentOutput(height uint64, ts int64) *chain.OutputBlock {
	root, err := e.DB.GetMerkleRoot(Ctx)
	must(err)
	sb, err := chain.NewStatelessBlock(ids.Empty, ts, height, nil, root, nil)
	must(err)
	return &chain.OutputBlock{ExecutionBlock: chain.NewExecutionBlock(sb), View: e.DB}
}

// UnmarshalOpAction decodes the encoding produced by OpAction.Bytes (so that OpActions can be
// registered in a codec.TypeParser and sent through APIs that take action bytes).
func UnmarshalOpAction(b []byte) (chain.Action, error) {
	bad := errors.New("bad OpAction encoding")
	if len(b) < 1+32+1 || b[0] != OpActionID {
		return nil, bad
	}
	a := &OpAction{}
	a.Compute = binary.BigEndian.Uint64(b[1:])
	a.Nonce = binary.BigEndian.Uint64(b[9:])
	a.Start = int64(binary.BigEndian.Uint64(b[17:]))
	a.End = int64(binary.BigEndian.Uint64(b[25:]))
	p := 33
	need := func(n int) bool { return p+n <= len(b) }
	if !need(1) {
		return nil, bad
	}
	nd := int(b[p])
	p++
	for i := 0; i < nd; i++ {
		if !need(1) {
			return nil, bad
		}
		kl := int(b[p])
		p++
		if !need(kl + 1) {
			return nil, bad
		}
		a.Declared = append(a.Declared, KeyPerm{Key: string(b[p : p+kl]), Perm: state.Permissions(b[p+kl])})
		p += kl + 1
	}
	if !need(1) {
		return nil, bad
	}
	ns := int(b[p])
	p++
	for i := 0; i < ns; i++ {
		if !need(2) {
			return nil, bad
		}
		kind, kl := StepKind(b[p]), int(b[p+1])
		p += 2
		if !need(kl + 4) {
			return nil, bad
		}
		key := string(b[p : p+kl])
		p += kl
		vl := int(binary.BigEndian.Uint32(b[p:]))
		p += 4
		if !need(vl) {
			return nil, bad
		}
		var val []byte
		if vl > 0 {
			val = append([]byte{}, b[p:p+vl]...)
		}
		p += vl
		a.Script = append(a.Script, Step{Kind: kind, Key: key, Val: val})
	}
	if p != len(b) {
		return nil, bad
	}
	return a, nil
}
