// C27: genesis state contains exactly the configured allocations and initial metadata.
// Complete grid over allocation lists x minimum price vectors x balance handlers through the
// real DefaultGenesis.InitializeState and chain.NewGenesisCommit.
package main

import (
	"encoding/binary"
	"fmt"
	"math/big"

	"github.com/ava-labs/avalanchego/database/memdb"
	"github.com/ava-labs/avalanchego/trace"
	"github.com/ava-labs/avalanchego/utils/logging"
	"github.com/ava-labs/avalanchego/x/merkledb"

	"github.com/ava-labs/hypersdk/chain"
	mstorage "github.com/ava-labs/hypersdk/examples/morpheusvm/storage"
	"github.com/ava-labs/hypersdk/fees"
	"github.com/ava-labs/hypersdk/genesis"
	ifees "github.com/ava-labs/hypersdk/internal/fees"
	"github.com/ava-labs/hypersdk/internal/vshim/evid"
	"github.com/ava-labs/hypersdk/verifh/rig"
)

func main() {
	r := evid.Start("C27", "exploration")
	evals, nontriv := 0, 0
	amounts := []uint64{0, 1, 1 << 63, ^uint64(0)}
	if r.Thorough() {
		amounts = append(amounts, 2, 1<<63-1, 1<<63+1, ^uint64(0)-1)
	}
	type alloc struct {
		addr int
		amt  uint64
	}
	var lists [][]alloc
	var rec func(cur []alloc)
	rec = func(cur []alloc) {
		lists = append(lists, append([]alloc{}, cur...))
		if len(cur) == 3 {
			return
		}
		for a := 0; a < 2; a++ {
			for _, m := range amounts {
				rec(append(cur, alloc{a, m}))
			}
		}
	}
	rec(nil)
	priceVecs := []fees.Dimensions{{0, 0, 0, 0, 0}, {100, 100, 100, 100, 100}, {1, 2, 3, 4, ^uint64(0)}}
	handlers := []func() chain.BalanceHandler{func() chain.BalanceHandler { return nil }, func() chain.BalanceHandler { return &mstorage.BalanceHandler{} }}
	for _, l := range lists {
		for pi, pv := range priceVecs {
			for hi, mk := range handlers {
				evals++
				rules := rig.DefaultRules()
				rules.MinUnitPrice = pv
				env := rig.NewEnvLite(rules, mk())
				var ca []*genesis.CustomAllocation
				sum := map[int]*big.Int{0: new(big.Int), 1: new(big.Int)}
				total := new(big.Int)
				for _, a := range l {
					ca = append(ca, &genesis.CustomAllocation{Address: rig.Addr(a.addr), Balance: a.amt})
					sum[a.addr].Add(sum[a.addr], new(big.Int).SetUint64(a.amt))
					total.Add(total, new(big.Int).SetUint64(a.amt))
				}
				gen := genesis.NewDefaultGenesis(ca)
				gen.Rules = rules
				db, err := merkledb.New(rig.Ctx, memdb.New(), merkledb.Config{BranchFactor: merkledb.BranchFactor16, Tracer: trace.Noop})
				if err != nil {
					evid.Infra("%v", err)
				}
				blk, view, err := chain.NewGenesisCommit(rig.Ctx, db, gen, env.MM, env.BH, env.RF, trace.Noop, logging.NoLog{})
				rep := map[string]any{"allocations": l, "minPrices": pi, "handler": hi}
				overflow := !total.IsUint64()
				if overflow {
					if err == nil {
						r.Violation("C27:overflowing-supply-accepted", fmt.Sprintf("allocations %v (total %s) accepted", l, total), rep)
					}
					nontriv++
					continue
				}
				if err != nil {
					r.Violation("C27:valid-genesis-rejected", fmt.Sprintf("allocations %v: %v", l, err), rep)
					continue
				}
				for a := 0; a < 2; a++ {
					got, gerr := env.BH.GetBalance(rig.Ctx, rig.Addr(a), view)
					if gerr != nil || new(big.Int).SetUint64(got).Cmp(sum[a]) != 0 {
						r.Violation("C27:balance-differs-from-allocations", fmt.Sprintf("address %d holds %d (err %v), allocations sum to %s", a, got, gerr, sum[a]), rep)
					}
				}
				if g, _ := env.BH.GetBalance(rig.Ctx, rig.Addr(5), view); g != 0 {
					r.Violation("C27:unallocated-address-has-balance", "unallocated address has a balance", rep)
				}
				get := func(k []byte) []byte { v, _ := view.GetValue(rig.Ctx, k); return v }
				if h := get(chain.HeightKey(env.MM.HeightPrefix())); len(h) != 8 || binary.BigEndian.Uint64(h) != 0 {
					r.Violation("C27:height-not-zero", fmt.Sprintf("genesis height bytes %x", h), rep)
				}
				if t := get(chain.TimestampKey(env.MM.TimestampPrefix())); len(t) != 8 || binary.BigEndian.Uint64(t) != 0 {
					r.Violation("C27:timestamp-not-zero", fmt.Sprintf("genesis timestamp bytes %x", t), rep)
				}
				fm := ifees.NewManager(get(chain.FeeKey(env.MM.FeePrefix())))
				if fm.UnitPrices() != pv {
					r.Violation("C27:unit-prices-differ-from-minimum", fmt.Sprintf("unit prices %v, minimum %v", fm.UnitPrices(), pv), rep)
				}
				if fm.UnitsConsumed() != (fees.Dimensions{}) {
					r.Violation("C27:consumed-not-zero", "genesis fee state has consumption", rep)
				}
				root, _ := view.GetMerkleRoot(rig.Ctx)
				if blk.StateRoot != root || blk.Hght != 0 || len(blk.Txs) != 0 {
					r.Violation("C27:block-root-differs", fmt.Sprintf("genesis block root %s, state root %s", blk.StateRoot, root), rep)
				}
				// exactly: the key set of the genesis state = allocated addresses (non-zero sums; a zero
				// allocation may or may not materialise a key) + 3 metadata keys
				it := view.NewIterator()
				n := 0
				for it.Next() {
					n++
				}
				it.Release()
				minKeys, maxKeys := 3, 3
				seen := map[int]bool{}
				for _, a := range l {
					if !seen[a.addr] {
						seen[a.addr] = true
						maxKeys++
						if sum[a.addr].Sign() > 0 {
							minKeys++
						}
					}
				}
				if n < minKeys || n > maxKeys {
					r.Violation("C27:extra-or-missing-keys", fmt.Sprintf("genesis state has %d keys, expected between %d and %d", n, minKeys, maxKeys), rep)
				}
				if len(l) > 1 {
					nontriv++
				}
				if evals%5000 == 0 {
					r.Sample(rep)
				}
			}
		}
	}
	r.Sample(map[string]any{"allocations": "[{0 2^63} {0 2^63}]", "expected": "rejected (overflow)"})
	r.Cov["evaluations"] = evals
	r.Cov["distinct_nontrivial"] = nontriv
	r.Cov["rule"] = fmt.Sprintf("every allocation list of length 0..3 over 2 addresses x %d amounts (duplicates, zeros, overflowing totals) x 3 minimum-price vectors x 2 balance handlers through NewGenesisCommit; non-trivial = lists with >=2 allocations or an overflowing total", len(amounts))
	r.Finish()
}
