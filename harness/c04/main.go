// C04: the transactional state view behaves like a key-value map with checkpoints.
// Explicit-state BFS over get/insert/remove/mark/rollback/commit histories on the real
// tstate.TState/TStateView, against a plain-map reference with snapshots.
package main

import (
	"bytes"
	"context"
	"errors"
	"fmt"
	"sort"
	"strings"

	"github.com/ava-labs/avalanchego/database"

	"github.com/ava-labs/hypersdk/internal/vshim/evid"
	"github.com/ava-labs/hypersdk/internal/vshim/seqx"
	"github.com/ava-labs/hypersdk/state"
	"github.com/ava-labs/hypersdk/state/tstate"
)

var (
	ctx  = context.Background()
	keyA = []byte{'a', 0, 1}
	keyB = []byte{'b', 0, 1}
	keys = [][]byte{keyA, keyB}
	v0   = []byte("v0") // base value
	vx   = []byte("x")  // block-level pending value
	va   = []byte("a")
	vb   = []byte("b")
	ve   = []byte{} // a present key with a zero-length value (0 chunks)
)

type mapStore map[string][]byte

func (m mapStore) GetValue(_ context.Context, k []byte) ([]byte, error) {
	if v, ok := m[string(k)]; ok {
		return v, nil
	}
	return nil, database.ErrNotFound
}

// operation alphabet (after the configuration choice)
type opKind int

const (
	opInsert opKind = iota
	opRemove
	opMark
	opRollback // to the i-th live mark from the top
	opCommit
)

type opDef struct {
	kind opKind
	key  int
	val  []byte
	arg  int
	name string
}

var ops []opDef

// configurations: per key base {absent,v0} x block pending {none,Some x,Nothing}
type config struct {
	base [2]bool
	pend [2]int // 0 none, 1 some x, 2 nothing
}

var configs []config

func init() {
	for _, b0 := range []bool{false, true} {
		for _, p0 := range []int{0, 1, 2} {
			for _, b1 := range []bool{false, true} {
				for _, p1 := range []int{0, 1, 2} {
					configs = append(configs, config{[2]bool{b0, b1}, [2]int{p0, p1}})
				}
			}
		}
	}
	for k := range keys {
		for _, v := range [][]byte{va, vb, v0, vx} {
			ops = append(ops, opDef{kind: opInsert, key: k, val: v, name: fmt.Sprintf("insert(%c,%s)", keys[k][0], v)})
		}
		if k == 0 {
			ops = append(ops, opDef{kind: opInsert, key: k, val: ve, name: fmt.Sprintf("insert(%c,<empty value>)", keys[k][0])})
		}
		ops = append(ops, opDef{kind: opRemove, key: k, name: fmt.Sprintf("remove(%c)", keys[k][0])})
	}
	ops = append(ops, opDef{kind: opMark, name: "mark"})
	ops = append(ops, opDef{kind: opRollback, arg: 0, name: "rollback(latest mark)"})
	ops = append(ops, opDef{kind: opRollback, arg: 1, name: "rollback(2nd latest mark)"})
	ops = append(ops, opDef{kind: opCommit, name: "commit+newview"})
}

func histNames(h []int) []string {
	out := []string{}
	for i, o := range h {
		if i == 0 {
			c := configs[o]
			out = append(out, fmt.Sprintf("config{base:%v blockPending(0 none,1 some x,2 deleted):%v}", c.base, c.pend))
		} else {
			out = append(out, ops[o-len(configs)].name)
		}
	}
	return out
}

type refMark struct {
	opIndex int
	snap    map[string][]byte // visible map at the mark (nil entry = absent)
}

func cloneMap(m map[string][]byte) map[string][]byte {
	c := make(map[string][]byte, len(m))
	for k, v := range m {
		c[k] = v
	}
	return c
}

func exec(hist []int) seqx.Result {
	if len(hist) == 0 {
		en := make([]int, len(configs))
		for i := range en {
			en[i] = i
		}
		return seqx.Result{Key: "root", Enabled: en}
	}
	cfg := configs[hist[0]]
	base := mapStore{}
	under := map[string][]byte{} // reference: underlying state of the current view (present keys only)
	ts := tstate.New(4)
	{
		// establish block-level pending through a first view
		for k := range keys {
			if cfg.base[k] {
				base[string(keys[k])] = v0
				under[string(keys[k])] = v0
			}
		}
		setup := ts.NewView(state.CompletePermissions, base, 4)
		for k := range keys {
			switch cfg.pend[k] {
			case 1:
				if err := setup.Insert(ctx, keys[k], vx); err != nil {
					return seqx.Result{Violation: &seqx.Violation{Key: "C04:setup", What: err.Error()}}
				}
				under[string(keys[k])] = vx
			case 2:
				if err := setup.Remove(ctx, keys[k]); err != nil {
					return seqx.Result{Violation: &seqx.Violation{Key: "C04:setup", What: err.Error()}}
				}
				delete(under, string(keys[k]))
			}
		}
		setup.Commit()
	}
	refChanged := map[string]*[]byte{} // reference for TState.ChangedKeys
	for k, v := range ts.ChangedKeys() {
		if v.IsNothing() {
			refChanged[k] = nil
		} else {
			b := v.Value()
			refChanged[k] = &b
		}
	}
	view := ts.NewView(state.CompletePermissions, base, 4)
	visible := cloneMap(under)
	var marks []refMark
	outcome := ""
	viol := func(key, what string) seqx.Result {
		return seqx.Result{Violation: &seqx.Violation{Key: key, What: what, Data: map[string]any{"history": histNames(hist)}}}
	}
	checkReads := func(step int) *seqx.Result {
		for _, k := range keys {
			got, err := view.GetValue(ctx, k)
			want, ok := visible[string(k)]
			switch {
			case ok && (err != nil || !bytes.Equal(got, want)):
				r := viol("C04:read-differs-from-last-write", fmt.Sprintf("after step %d: Get(%c) = %q,%v but the most recent write is %q", step, k[0], got, err, want))
				return &r
			case !ok && !errors.Is(err, database.ErrNotFound):
				r := viol("C04:deleted-or-absent-key-visible", fmt.Sprintf("after step %d: Get(%c) = %q,%v but the key is absent/deleted", step, k[0], got, err))
				return &r
			}
		}
		return nil
	}
	if r := checkReads(0); r != nil {
		return *r
	}
	for i, oi := range hist[1:] {
		o := ops[oi-len(configs)]
		switch o.kind {
		case opInsert:
			if err := view.Insert(ctx, keys[o.key], o.val); err != nil {
				return viol("C04:insert-error", fmt.Sprintf("step %d %s: %v", i+1, o.name, err))
			}
			visible[string(keys[o.key])] = o.val
			outcome = "insert"
		case opRemove:
			if err := view.Remove(ctx, keys[o.key]); err != nil {
				return viol("C04:remove-error", fmt.Sprintf("step %d %s: %v", i+1, o.name, err))
			}
			delete(visible, string(keys[o.key]))
			outcome = "remove"
		case opMark:
			marks = append(marks, refMark{view.OpIndex(), cloneMap(visible)})
			outcome = "mark"
		case opRollback:
			idx := len(marks) - 1 - o.arg
			m := marks[idx]
			view.Rollback(ctx, m.opIndex)
			visible = cloneMap(m.snap)
			marks = marks[:idx+1]
			outcome = "rollback"
			if view.OpIndex() != m.opIndex {
				return viol("C04:rollback-opindex", fmt.Sprintf("step %d: OpIndex %d after rollback to %d", i+1, view.OpIndex(), m.opIndex))
			}
		case opCommit:
			// expected publication: exactly the keys whose visible value differs from underlying
			for _, k := range keys {
				ks := string(k)
				vv, vok := visible[ks]
				uv, uok := under[ks]
				if vok != uok || (vok && !bytes.Equal(vv, uv)) {
					if vok {
						b := vv
						refChanged[ks] = &b
					} else {
						refChanged[ks] = nil
					}
				}
			}
			view.Commit()
			got := ts.ChangedKeys()
			if len(got) != len(refChanged) {
				return viol("C04:commit-publishes-wrong-key-set", fmt.Sprintf("step %d: block-level changed keys %s, expected %s", i+1, dumpMaybe(got), dumpRef(refChanged)))
			}
			for k, want := range refChanged {
				g, ok := got[k]
				if !ok || g.IsNothing() != (want == nil) || (want != nil && !bytes.Equal(g.Value(), *want)) {
					return viol("C04:commit-publishes-wrong-value", fmt.Sprintf("step %d: block-level changed keys %s, expected %s", i+1, dumpMaybe(got), dumpRef(refChanged)))
				}
			}
			under = cloneMap(visible)
			view = ts.NewView(state.CompletePermissions, base, 4)
			marks = nil
			outcome = "commit"
		}
		if r := checkReads(i + 1); r != nil {
			return *r
		}
	}
	// enabled ops
	var en []int
	for j, o := range ops {
		switch o.kind {
		case opRollback:
			if len(marks) <= o.arg {
				continue
			}
		case opMark:
			if len(marks) >= 2 {
				continue
			}
		}
		en = append(en, len(configs)+j)
	}
	// canonical key: config-derived base+block-level state, private dump of the view, marks
	var sb strings.Builder
	fmt.Fprintf(&sb, "B%v|C%s|V%s|M", cfg.base, dumpMaybe(ts.ChangedKeys()), view.VerifDump())
	for _, m := range marks {
		fmt.Fprintf(&sb, "%d,", m.opIndex)
		ks := make([]string, 0)
		for k, v := range m.snap {
			ks = append(ks, fmt.Sprintf("%x=%x", k, v))
		}
		sort.Strings(ks)
		sb.WriteString(strings.Join(ks, ";") + "|")
	}
	return seqx.Result{Key: sb.String(), Enabled: en, Outcome: outcome}
}

func dumpRef(m map[string]*[]byte) string {
	ks := []string{}
	for k, v := range m {
		if v == nil {
			ks = append(ks, fmt.Sprintf("%c=DEL", k[0]))
		} else {
			ks = append(ks, fmt.Sprintf("%c=%s", k[0], *v))
		}
	}
	sort.Strings(ks)
	return "{" + strings.Join(ks, ",") + "}"
}

type maybeLike interface {
	IsNothing() bool
	Value() []byte
}

func dumpMaybe[M maybeLike](m map[string]M) string {
	ks := []string{}
	for k, v := range m {
		if v.IsNothing() {
			ks = append(ks, fmt.Sprintf("%c=DEL", k[0]))
		} else {
			ks = append(ks, fmt.Sprintf("%c=%s", k[0], v.Value()))
		}
	}
	sort.Strings(ks)
	return "{" + strings.Join(ks, ",") + "}"
}

func main() {
	r := evid.Start("C04", "model_checking")
	depth := evid.Pick(r, 6, 7) // including the configuration choice
	s := &seqx.Search{
		Exec: exec, MaxDepth: depth, Stop: r.Expired,
		OnViolation: func(h []int, v *seqx.Violation) {
			r.Violation(v.Key, v.What, map[string]any{"history": histNames(h), "ops": h})
		},
	}
	st := s.Run()
	if !st.Complete {
		r.Cap("deadline or state cap reached before depth bound")
	}
	for _, h := range st.Samples {
		r.Sample(histNames(h))
	}
	r.Cov["states"] = st.States
	r.Cov["transitions"] = st.Transitions
	r.Cov["traces_validated_against_impl"] = st.Transitions
	r.Cov["max_depth"] = st.MaxDepth
	r.Cov["distinct_outcomes"] = len(st.Outcomes)
	r.Cov["outcomes"] = st.Outcomes
	r.Cov["frontier_unexpanded_at_bound"] = st.Frontier
	r.Cov["bounds"] = map[string]any{"depth": depth, "configs": len(configs), "ops": len(ops), "keys": 2}
	r.Cov["explanation"] = "every transition is an execution of the real TState/TStateView (fresh instance, history replayed); all reads are compared with a plain-map reference after every step"
	r.Assumptions = []string{"2 keys, 4 values; values equal to base and to block-level pending included", "CompletePermissions scope (permissions are C05)"}
	r.Finish()
}
