// C05: state access is confined to declared keys and permissions. Exhaustive grid over all
// permission bytes, their unions, access kinds and key variants at three layers:
// state.Keys.Add, TStateView, and whole transactions.
package main

import (
	"context"
	"errors"
	"fmt"

	"github.com/ava-labs/avalanchego/database"

	"github.com/ava-labs/hypersdk/chain"
	"github.com/ava-labs/hypersdk/fees"
	ifees "github.com/ava-labs/hypersdk/internal/fees"
	"github.com/ava-labs/hypersdk/internal/vshim/evid"
	"github.com/ava-labs/hypersdk/state"
	"github.com/ava-labs/hypersdk/state/tstate"
	"github.com/ava-labs/hypersdk/verifh/rig"
)

var (
	kD  = rig.Key("k", 1)  // declared
	kS  = rig.Key("k", 2)  // same prefix, other size suffix (a different key)
	kO  = rig.Key("o", 1)  // other key, declared with all permissions
	kUn = rig.Key("u", 1)  // never declared
	ctx = context.Background()
)

type access int

const (
	aGet access = iota
	aInsert
	aRemove
)

func (a access) String() string { return [...]string{"get", "insert", "remove"}[a] }

// allowed is the lattice of the statement: read needs read, modify needs write, create needs
// write and allocate.
func allowed(p state.Permissions, a access, exists bool) bool {
	switch a {
	case aGet:
		return p.Has(state.Read)
	case aInsert:
		if exists {
			return p.Has(state.Write)
		}
		return p.Has(state.Write) && p.Has(state.Allocate)
	default:
		return p.Has(state.Write)
	}
}

func main() {
	r := evid.Start("C05", "exploration")
	evals, nontriv := 0, 0
	maxP := evid.Pick(r, 8, 16) // permission bytes 0..7 (thorough: also bytes with an unknown bit)
	// ---- layer 1: unions in Keys.Add
	for p1 := 0; p1 < maxP; p1++ {
		for p2 := 0; p2 < maxP; p2++ {
			evals++
			ks := state.Keys{}
			ok1 := ks.Add(kD, state.Permissions(p1))
			ok2 := ks.Add(kD, state.Permissions(p2))
			if !ok1 || !ok2 || ks[kD] != state.Permissions(p1|p2) || len(ks) != 1 {
				r.Violation("C05:union", fmt.Sprintf("Add(%d) then Add(%d) gives %d", p1, p2, ks[kD]), map[string]any{"p1": p1, "p2": p2})
			}
			for q := 0; q < 8; q++ {
				want := q&^(p1|p2) == 0
				if ks.Has([]byte(kD), state.Permissions(q)) != want {
					r.Violation("C05:has", fmt.Sprintf("Keys{%d}.Has(%d) != %v", p1|p2, q, want), map[string]any{"p": p1 | p2, "q": q})
				}
				if ks.Has([]byte(kS), state.Permissions(q)) != (q == 0) || ks.Has([]byte(kUn), state.Permissions(q)) != (q == 0) {
					r.Violation("C05:has-other-key", "permission leaked to a different key", map[string]any{"p": p1 | p2, "q": q})
				}
			}
		}
	}
	// ---- layer 2: the view
	for p := 0; p < maxP; p++ {
		for _, exists := range []bool{false, true} {
			for _, pendingDel := range []bool{false, true} {
				for a := aGet; a <= aRemove; a++ {
					for _, key := range []string{kD, kS, kUn} {
						evals++
						base := map[string][]byte{kO: []byte("o")}
						if exists {
							base[kD], base[kS], base[kUn] = []byte("v"), []byte("v"), []byte("v")
						}
						ts := tstate.New(2)
						if pendingDel && exists {
							// the key exists in storage but was deleted earlier in the block
							setup := ts.NewView(state.CompletePermissions, state.ImmutableStorage(base), 1)
							_ = setup.Remove(ctx, []byte(key))
							setup.Commit()
						}
						keyExists := exists && !pendingDel
						scope := state.Keys{kD: state.Permissions(p), kO: state.All}
						v := ts.NewView(scope, state.ImmutableStorage(base), 2)
						// something already pending on another key: must survive a refused access
						if err := v.Insert(ctx, []byte(kO), []byte("o2")); err != nil {
							evid.Infra("setup insert: %v", err)
						}
						before := v.VerifDump()
						var err error
						var got []byte
						switch a {
						case aGet:
							got, err = v.GetValue(ctx, []byte(key))
						case aInsert:
							err = v.Insert(ctx, []byte(key), []byte("n"))
						case aRemove:
							err = v.Remove(ctx, []byte(key))
						}
						perm := state.Permissions(0)
						if key == kD {
							perm = state.Permissions(p)
						}
						want := allowed(perm, a, keyExists)
						rep := map[string]any{"perm": p, "access": a.String(), "key": rig.KeyName(key), "exists": keyExists}
						refused := errors.Is(err, tstate.ErrInvalidKeyOrPermission)
						if want && refused {
							r.Violation("C05:declared-access-refused", fmt.Sprintf("%s on %s with permission %d (exists=%v) refused", a, rig.KeyName(key), perm, keyExists), rep)
							continue
						}
						if !want {
							// refused = the access FAILED; which error value reports it is not part of the property.
							// (A read that answers "not found" for a key the view may not read fails too and reveals nothing.)
							if err == nil {
								r.Violation("C05:undeclared-access-allowed", fmt.Sprintf("%s on %s with permission %d (exists=%v) was not refused: err=%v value=%q", a, rig.KeyName(key), perm, keyExists, err, got), rep)
								continue
							}
							if v.VerifDump() != before {
								r.Violation("C05:refused-access-changed-state", fmt.Sprintf("refused %s on %s changed the view: %s -> %s", a, rig.KeyName(key), before, v.VerifDump()), rep)
								continue
							}
							if len(got) != 0 {
								r.Violation("C05:refused-read-returned-data", "refused read returned a value", rep)
							}
							nontriv++
							continue
						}
						// allowed: semantic spot check
						switch a {
						case aGet:
							if keyExists != (err == nil) || (err != nil && !errors.Is(err, database.ErrNotFound)) {
								r.Violation("C05:allowed-read-wrong", fmt.Sprintf("read of %s: err=%v exists=%v", rig.KeyName(key), err, keyExists), rep)
							}
						default:
							if err != nil {
								r.Violation("C05:allowed-write-error", fmt.Sprintf("%s on %s: %v", a, rig.KeyName(key), err), rep)
							}
						}
						nontriv++
					}
				}
			}
		}
	}
	// ---- layer 2b: sequences of up to 3 accesses to the declared key inside ONE view: the
	// lattice applies to the key's existence at the time of each access (a key removed earlier
	// in the same view no longer exists, so inserting it again is a creation)
	type step2 struct {
		a   access
		val string
	}
	menu := []step2{{aGet, ""}, {aInsert, "x"}, {aInsert, "y"}, {aRemove, ""}}
	var seqs [][]step2
	for _, a := range menu {
		for _, b := range menu {
			seqs = append(seqs, []step2{a, b})
			for _, c := range menu {
				seqs = append(seqs, []step2{a, b, c})
			}
		}
	}
	for p := 0; p < 8; p++ {
		for _, exists := range []bool{false, true} {
			for _, sq := range seqs {
				evals++
				base := map[string][]byte{}
				if exists {
					base[kD] = []byte("v")
				}
				ts := tstate.New(2)
				v := ts.NewView(state.Keys{kD: state.Permissions(p)}, state.ImmutableStorage(base), 2)
				cur, has := "v", exists
				desc := ""
				for si, st := range sq {
					desc += fmt.Sprintf("%s(%s);", st.a, st.val)
					want := allowed(state.Permissions(p), st.a, has)
					var err error
					var got []byte
					switch st.a {
					case aGet:
						got, err = v.GetValue(ctx, []byte(kD))
					case aInsert:
						err = v.Insert(ctx, []byte(kD), []byte(st.val))
					case aRemove:
						err = v.Remove(ctx, []byte(kD))
					}
					refused := errors.Is(err, tstate.ErrInvalidKeyOrPermission)
					rep := map[string]any{"perm": p, "sequence": desc, "exists_at_start": exists}
					if want && refused {
						r.Violation("C05:declared-access-refused", fmt.Sprintf("permission %d, key exists at start=%v, sequence %s: step %d refused", p, exists, desc, si), rep)
						break
					}
					if !want && err == nil {
						r.Violation("C05:undeclared-access-allowed", fmt.Sprintf("permission %d, key exists at start=%v, sequence %s: step %d (%s, key exists now=%v) was not refused (err=%v)", p, exists, desc, si, st.a, has, err), rep)
						break
					}
					if !want {
						continue
					}
					switch st.a {
					case aGet:
						if has != (err == nil) || (has && string(got) != cur) {
							r.Violation("C05:allowed-read-wrong", fmt.Sprintf("permission %d sequence %s: read %q,%v expected %q present=%v", p, desc, got, err, cur, has), rep)
						}
					case aInsert:
						cur, has = st.val, true
					case aRemove:
						has = false
					}
					nontriv++
				}
			}
		}
	}
	// ---- layer 3: whole transactions (two actions whose declarations union)
	perms := []state.Permissions{state.None, state.Read, state.Allocate, state.Write, state.All}
	for _, p1 := range perms {
		for _, p2 := range perms {
			for _, exists := range []bool{false, true} {
				for a := aGet; a <= aRemove; a++ {
					for _, key := range []string{kD, kS} {
						evals++
						env := rig.NewEnvLite(nil, nil)
						step := rig.Step{Kind: rig.Get, Key: key}
						switch a {
						case aInsert:
							step = rig.Step{Kind: rig.Put, Key: key, Val: []byte("n")}
						case aRemove:
							step = rig.Step{Kind: rig.Del, Key: key}
						}
						a1 := &rig.OpAction{Compute: 1, Start: -1, End: -1, Declared: []rig.KeyPerm{{Key: kD, Perm: p1}, {Key: kO, Perm: state.All}},
							Script: []rig.Step{{Kind: rig.Put, Key: kO, Val: []byte("o2")}}}
						a2 := &rig.OpAction{Compute: 1, Start: -1, End: -1, Nonce: 1, Declared: []rig.KeyPerm{{Key: kD, Perm: p2}}, Script: []rig.Step{step}}
						tx := env.MakeTx(0, []chain.Action{a1, a2}, 1000, rig.TxOpts{})
						base := map[string][]byte{kO: []byte("o")}
						if exists {
							base[kD], base[kS] = []byte("v"), []byte("v")
						}
						bstore := &mut{m: base}
						_ = env.BH.AddBalance(ctx, rig.Addr(0), bstore, 1<<40)
						sk, err := tx.StateKeys(env.BH)
						if err != nil {
							evid.Infra("%v", err)
						}
						fm := ifees.NewManager(nil)
						for d := fees.Dimension(0); d < fees.FeeDimensions; d++ {
							fm.SetUnitPrice(d, 1)
						}
						ts := tstate.New(2)
						tsv := ts.NewView(sk, state.ImmutableStorage(base), 4)
						if err := tx.PreExecute(ctx, fm, env.BH, env.Rules, tsv, 1000); err != nil {
							evid.Infra("preexecute: %v", err)
						}
						res, err := tx.Execute(ctx, fm, env.BH, env.Rules, tsv, 1000)
						if err != nil {
							evid.Infra("execute: %v", err)
						}
						perm := state.Permissions(0)
						if key == kD {
							perm = p1 | p2
						}
						want := allowed(perm, a, exists)
						rep := map[string]any{"p1": p1.String(), "p2": p2.String(), "access": a.String(), "key": rig.KeyName(key), "exists": exists}
						if res.Success != want {
							r.Violation("C05:tx-success-differs-from-lattice", fmt.Sprintf("action1 declares %s, action2 declares %s; %s on %s (exists=%v): success=%v, lattice says %v (%s)", p1, p2, a, rig.KeyName(key), exists, res.Success, want, res.Error), rep)
							continue
						}
						ov, _ := tsv.GetValueNoScope(ctx, []byte(kO))
						if !want && string(ov) != "o" {
							r.Violation("C05:failed-tx-altered-other-key", fmt.Sprintf("the refused access left key o = %q", ov), rep)
						}
						if want && string(ov) != "o2" {
							r.Violation("C05:successful-tx-lost-write", fmt.Sprintf("key o = %q", ov), rep)
						}
						kv, kerr := tsv.GetValueNoScope(ctx, []byte(key))
						if !want && (exists != (kerr == nil) || (exists && string(kv) != "v")) {
							r.Violation("C05:failed-tx-altered-target-key", fmt.Sprintf("key %s = %q,%v", rig.KeyName(key), kv, kerr), rep)
						}
						nontriv++
					}
				}
			}
		}
	}
	r.Sample(map[string]any{"scope": "k/1=read", "access": "insert", "expected": "refused, view unchanged"})
	r.Cov["evaluations"] = evals
	r.Cov["distinct_nontrivial"] = nontriv
	r.Cov["rule"] = "layer 1: all pairs of permission bytes through Keys.Add/Has; layer 2: every permission byte x {absent, present, deleted earlier in the block} x {get, insert, remove} x {declared key, same prefix with another size suffix, undeclared key} on the real TStateView with a pending write on another key (refused => ErrInvalidKeyOrPermission and identical private dump); layer 2b: every sequence of 2-3 accesses {get, insert x, insert y, remove} to the declared key inside one view x permission byte x initial existence, lattice applied to the key's existence at each step; layer 3: transactions whose two actions declare the key with p1 and p2 (5x5) x access x existence through Transaction.Execute; non-trivial = cases whose verdict was checked against the lattice (all but setup)"
	r.Assumptions = []string{"lattice: read needs Read, modify needs Write, create needs Write and Allocate (the exported permission constants)"}
	r.Finish()
}

type mut struct{ m map[string][]byte }

func (s *mut) GetValue(_ context.Context, k []byte) ([]byte, error) {
	if v, ok := s.m[string(k)]; ok {
		return v, nil
	}
	return nil, database.ErrNotFound
}
func (s *mut) Insert(_ context.Context, k, v []byte) error { s.m[string(k)] = v; return nil }
func (s *mut) Remove(_ context.Context, k []byte) error    { delete(s.m, string(k)); return nil }
