// C07: no transaction is charged more than the maximum fee it signed. Complete grid over
// MaxFee x unit prices x transaction shapes through the three paths: admission
// (PreExecutor), builder, verifier (Processor).
package main

import (
	"fmt"

	"github.com/ava-labs/avalanchego/ids"

	"github.com/ava-labs/hypersdk/chain"
	"github.com/ava-labs/hypersdk/fees"
	"github.com/ava-labs/hypersdk/internal/validitywindow/validitywindowtest"
	"github.com/ava-labs/hypersdk/internal/vshim/evid"
	"github.com/ava-labs/hypersdk/internal/vshim/vsched"
	"github.com/ava-labs/hypersdk/internal/workers"
	"github.com/ava-labs/hypersdk/state"
	"github.com/ava-labs/hypersdk/verifh/rig"
)

const (
	parentTs = 9_000
	now      = 10_000
)

func shapesOf() [][]chain.Action {
	k1, k2 := rig.Key("k1", 1), rig.Key("k2", 4)
	a := func(n uint64, decl []rig.KeyPerm, st ...rig.Step) chain.Action {
		return &rig.OpAction{Compute: 1 + n, Nonce: n, Start: -1, End: -1, Declared: decl, Script: st}
	}
	return [][]chain.Action{
		{},
		{a(0, nil)},
		{a(1, []rig.KeyPerm{{Key: k1, Perm: state.All}}, rig.Step{Kind: rig.Put, Key: k1, Val: []byte("v")})},
		{a(2, []rig.KeyPerm{{Key: k1, Perm: state.Read}, {Key: k2, Perm: state.All}}, rig.Step{Kind: rig.Get, Key: k1}), a(3, nil, rig.Step{Kind: rig.Fail})},
	}
}

func main() {
	r := evid.Start("C07", "exploration")
	vsched.FreezeClock(now)
	evals, nontriv := 0, 0
	vw := &validitywindowtest.MockTimeValidityWindow[*chain.Transaction]{}
	for si, actions := range shapesOf() {
		for _, mult := range []uint64{1, 10} {
			rules := rig.DefaultRules()
			p := 100 * mult
			rules.MinUnitPrice = fees.Dimensions{p, p, p, p, p}
			// learn the fee this transaction is charged in the child of this parent
			probeEnv := rig.NewEnv(rig.EnvConfig{Rules: rules, Balances: []uint64{1 << 50}, Height: 5, Timestamp: parentTs})
			probe := probeEnv.MakeTx(0, actions, now, rig.TxOpts{MaxFee: 1 << 60})
			blk := probeEnv.MakeBlock(probeEnv.DB, ids.Empty, 6, now, []*chain.Transaction{probe})
			ref := probeEnv.SeqExecute(probeEnv.DB, blk)
			if ref.Err != nil {
				evid.Infra("probe failed: %v", ref.Err)
			}
			fee := ref.Results[0].Fee
			for _, mf := range []uint64{1, 2, fee - 1, fee, fee + 1, ^uint64(0), fee / 2} {
				// (MakeTx treats 0 as "default"; MaxFee 0 is covered by passing it explicitly below)
				for _, zero := range []bool{false, true} {
					if zero && mf != 1 {
						continue
					}
					maxFee := mf
					if zero {
						maxFee = 0
					}
					env := rig.NewEnv(rig.EnvConfig{Rules: rules, Balances: []uint64{1 << 50}, Height: 5, Timestamp: parentTs})
					tx := env.MakeTx(0, actions, now, rig.TxOpts{MaxFee: 1})
					// rebuild with the exact MaxFee (incl. 0)
					tx, _ = chain.NewTransaction(chain.Base{Timestamp: tx.Base.Timestamp, ChainID: tx.Base.ChainID, MaxFee: maxFee}, actions, tx.Auth)
					// the exact fee of *this* encoding (a zero MaxFee is omitted on the wire)
					{
						pe := rig.NewEnv(rig.EnvConfig{Rules: rules, Balances: []uint64{1 << 50}, Height: 5, Timestamp: parentTs})
						pr := pe.SeqExecute(pe.DB, pe.MakeBlock(pe.DB, ids.Empty, 6, now, []*chain.Transaction{tx}))
						if pr.Err != nil {
							evid.Infra("reference failed: %v", pr.Err)
						}
						fee = pr.Results[0].Fee
					}
					over := fee > maxFee
					rep := map[string]any{"shape": si, "unitPrice": p, "fee": fee, "maxFee": maxFee}
					// --- admission
					evals++
					parent := env.ParentOutput(5, parentTs)
					aerr := env.NewPreExecutor(vw).PreExecute(rig.Ctx, parent.ExecutionBlock, env.DB, tx)
					if over && aerr == nil {
						r.Violation("C07:admit:fee>maxfee", fmt.Sprintf("admission accepted a transaction whose fee %d exceeds its MaxFee %d", fee, maxFee), rep)
					}
					if !over && aerr != nil {
						r.Violation("C07:admit:rejects-payable", fmt.Sprintf("admission rejected fee %d <= MaxFee %d: %v", fee, maxFee, aerr), rep)
					}
					// --- builder
					evals++
					mp := rig.NewMempool(10, 10)
					mp.Add(rig.Ctx, []*chain.Transaction{tx})
					eb, ob, berr := env.NewBuilder(mp, vw, 1, 0).BuildBlock(rig.Ctx, nil, parent)
					included := berr == nil && len(eb.Txs) == 1
					if included && ob.ExecutionResults.Results[0].Fee != fee {
						evid.Infra("builder charged %d, probe says %d", ob.ExecutionResults.Results[0].Fee, fee)
					}
					if over && included {
						r.Violation("C07:build:fee>maxfee", fmt.Sprintf("the builder included a transaction charged %d with MaxFee %d", fee, maxFee), rep)
					}
					if !over && !included {
						r.Violation("C07:build:skips-payable", fmt.Sprintf("the builder skipped fee %d <= MaxFee %d (err %v)", fee, maxFee, berr), rep)
					}
					// --- verifier
					evals++
					vblk := env.MakeBlock(env.DB, ids.Empty, 6, now, []*chain.Transaction{tx})
					proc := env.NewProcessor(1, 1, workers.NewSerial(), vw, nil)
					out, verr := proc.Execute(rig.Ctx, env.DB, vblk, true)
					if over && verr == nil {
						r.Violation("C07:verify:fee>maxfee", fmt.Sprintf("a block charging %d to a transaction with MaxFee %d verifies", out.ExecutionResults.Results[0].Fee, maxFee), rep)
					}
					if !over && verr != nil {
						r.Violation("C07:verify:rejects-payable", fmt.Sprintf("block with fee %d <= MaxFee %d rejected: %v", fee, maxFee, verr), rep)
					}
					if over {
						nontriv += 3
					}
					if si == 2 && mult == 1 {
						r.Sample(rep)
					}
				}
			}
		}
	}
	r.Cov["evaluations"] = evals
	r.Cov["distinct_nontrivial"] = nontriv
	r.Cov["rule"] = "4 transaction shapes x unit prices {100, 1000} x MaxFee {0, 1, 2, fee/2, fee-1, fee, fee+1, 2^64-1} through admission (PreExecutor.PreExecute), Builder.BuildBlock and Processor.Execute with a frozen clock; non-trivial = paths exercised with fee > MaxFee"
	r.Assumptions = []string{"the fee charged is taken from the sequential reference execution of the same block"}
	r.Finish()
}
