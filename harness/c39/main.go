// C39: metadata.HasConflictingPrefixes is exact. Exhaustive over all metadata triples and
// VM prefix lists of length 0..3 over the 7 bit-strings of length <= 2 (as bytes 0/1).
package main

import (
	"bytes"
	"fmt"

	"github.com/ava-labs/hypersdk/internal/vshim/evid"
	"github.com/ava-labs/hypersdk/state/metadata"
)

func main() {
	r := evid.Start("C39", "exploration")
	alpha := [][]byte{{}, {0}, {1}, {0, 0}, {0, 1}, {1, 0}, {1, 1}}
	if r.Thorough() {
		alpha = append(alpha, []byte{0, 0, 0}, []byte{1, 0, 1}, nil)
	}
	maxVM := evid.Pick(r, 3, 3)
	evals, nontriv := 0, 0
	outcomes := map[bool]int{}
	ref := func(ps [][]byte) bool {
		for i := range ps {
			for j := range ps {
				if i != j && bytes.HasPrefix(ps[j], ps[i]) {
					return true
				}
			}
		}
		return false
	}
	var rec func(vm [][]byte, m metadata.MetadataManager, base [][]byte)
	rec = func(vm [][]byte, m metadata.MetadataManager, base [][]byte) {
		evals++
		all := append(append([][]byte{}, base...), vm...)
		want := ref(all)
		got := metadata.HasConflictingPrefixes(m, vm)
		outcomes[got]++
		if got != want {
			kind := "missed-conflict"
			if got {
				kind = "spurious-conflict"
			}
			r.Violation("C39:"+kind, fmt.Sprintf("prefixes %v: reported %v, expected %v", all, got, want), map[string]any{"prefixes": all})
		}
		if !want && len(vm) > 0 {
			nontriv++
		}
		if want && len(vm) > 0 && !ref(base) {
			nontriv++
		}
		if len(vm) == maxVM {
			return
		}
		for _, p := range alpha {
			rec(append(append([][]byte{}, vm...), p), m, base)
		}
	}
	for _, h := range alpha {
		for _, f := range alpha {
			for _, t := range alpha {
				m := metadata.NewManager(h, f, t)
				rec(nil, m, [][]byte{h, f, t})
			}
		}
	}
	r.Sample(map[string]any{"height": []byte{0}, "fee": []byte{1, 0}, "timestamp": []byte{1, 1}, "vm": [][]byte{{0, 1}}, "conflict": true})
	r.Cov["evaluations"] = evals
	r.Cov["distinct_nontrivial"] = nontriv
	r.Cov["distinct_outcomes"] = len(outcomes)
	r.Cov["rule"] = fmt.Sprintf("all (height,fee,timestamp) triples x all VM prefix lists of length 0..%d over %d short byte strings (incl. empty); non-trivial = lists with >=1 VM prefix whose verdict is not already decided by the metadata triple alone", maxVM, len(alpha))
	r.Finish()
}
