// C13: unit prices follow the fee-market rule exactly. Complete boundary grid over
// (price, window slots, last consumed, target, denominator, min price, elapsed) through the
// real Manager.ComputeNext against a math/big reference, plus monotonicity in usage and the
// encoded-state round trip.
package main

import (
	"encoding/binary"
	"fmt"
	"math/big"
	"runtime"
	"sync"
	"sync/atomic"

	"github.com/ava-labs/hypersdk/fees"
	ifees "github.com/ava-labs/hypersdk/internal/fees"
	"github.com/ava-labs/hypersdk/internal/vshim/evid"
	"github.com/ava-labs/hypersdk/internal/window"
)

const maxU = ^uint64(0)

type rules struct{ target, denom, minp fees.Dimensions }

func (r rules) GetMinUnitPrice() fees.Dimensions               { return r.minp }
func (r rules) GetUnitPriceChangeDenominator() fees.Dimensions { return r.denom }
func (r rules) GetWindowTargetUnits() fees.Dimensions          { return r.target }
func (r rules) GetMaxBlockUnits() fees.Dimensions              { return fees.Dimensions{maxU, maxU, maxU, maxU, maxU} }

type tuple struct {
	price, slotA, slotB, last, target, denom, minp, since uint64
}

// reference next price and window in exact arithmetic.
func ref(t tuple) (uint64, [window.WindowSize]uint64) {
	var w [window.WindowSize]uint64
	w[window.WindowSize-1] = t.slotA
	w[4] = t.slotB
	var nw [window.WindowSize]uint64
	if t.since < window.WindowSize {
		copy(nw[:], w[t.since:])
		slot := window.WindowSize - 1 - int(t.since)
		s := new(big.Int).Add(bu(nw[slot]), bu(t.last))
		nw[slot] = sat(s)
	}
	total := new(big.Int)
	for _, x := range nw {
		total.Add(total, bu(x))
	}
	tot := bu(sat(total))
	price, target := bu(t.price), bu(t.target)
	next := new(big.Int).Set(price)
	switch tot.Cmp(target) {
	case 1:
		d := new(big.Int).Sub(tot, target)
		d.Mul(d, price).Div(d, target).Div(d, bu(t.denom))
		if d.Sign() == 0 {
			d.SetInt64(1)
		}
		next.Add(next, d)
	case -1:
		d := new(big.Int).Sub(target, tot)
		d.Mul(d, price).Div(d, target).Div(d, bu(t.denom))
		if d.Sign() == 0 {
			d.SetInt64(1)
		}
		if t.since > window.WindowSize {
			d.Mul(d, bu(t.since/window.WindowSize))
		}
		next.Sub(next, d)
		if next.Sign() < 0 {
			next.SetInt64(0)
		}
	}
	n := sat(next)
	if n < t.minp {
		n = t.minp
	}
	return n, nw
}

func bu(x uint64) *big.Int { return new(big.Int).SetUint64(x) }
func sat(x *big.Int) uint64 {
	if !x.IsUint64() {
		return maxU
	}
	return x.Uint64()
}

func encode(lastTime uint64, ts [fees.FeeDimensions]tuple) []byte {
	dimLen := 8 + window.WindowSliceSize + 8
	raw := make([]byte, 8+fees.FeeDimensions*dimLen)
	binary.BigEndian.PutUint64(raw, lastTime)
	for i, t := range ts {
		st := 8 + i*dimLen
		binary.BigEndian.PutUint64(raw[st:], t.price)
		binary.BigEndian.PutUint64(raw[st+8+8*(window.WindowSize-1):], t.slotA)
		binary.BigEndian.PutUint64(raw[st+8+8*4:], t.slotB)
		binary.BigEndian.PutUint64(raw[st+8+window.WindowSliceSize:], t.last)
	}
	return raw
}

func main() {
	r := evid.Start("C13", "exploration")
	th := r.Thorough()
	prices := []uint64{0, 1, 2, 47, 48, 100, 1 << 32, 1 << 53, 1 << 62, 1 << 63, maxU}
	targets := []uint64{1, 1000, 1 << 32, 1 << 63, maxU}
	denoms := []uint64{1, 2, 48, 1 << 32, maxU}
	minps := []uint64{0, 1, 100, maxU}
	sinces := []uint64{0, 1, 5, 9, 10, 11, 20, 100, 1 << 32, 9_000_000_000_000_000}
	if th {
		prices = append(prices, 3, 49, 1<<32-1, 1<<32+1, 1<<63-1, 1<<63+1, maxU-1)
		targets = append(targets, 2, 48, 1<<32+1, 1<<63+1)
		denoms = append(denoms, 3, 47, 1<<63)
		minps = append(minps, 99, 101, 1<<63)
		sinces = append(sinces, 2, 8, 19, 21, 1<<20)
	}
	usage := func(target uint64) []uint64 {
		u := []uint64{0, 1, target - 1, target, target + 1, 2 * target, 1 << 63, maxU}
		if th {
			u = append(u, target/2, 3*target, maxU-1, maxU/2)
		}
		return u
	}
	type job struct{ target, denom, minp, since uint64 }
	var jobs []job
	for _, tg := range targets {
		for _, dn := range denoms {
			for _, mp := range minps {
				for _, sn := range sinces {
					jobs = append(jobs, job{tg, dn, mp, sn})
				}
			}
		}
	}
	var evals, nontriv atomic.Int64
	outcomes := sync.Map{}
	ch := make(chan job, len(jobs))
	for _, j := range jobs {
		ch <- j
	}
	close(ch)
	var wg sync.WaitGroup
	for w := 0; w < runtime.NumCPU(); w++ {
		wg.Add(1)
		go func() {
			defer wg.Done()
			for j := range ch {
				if r.Expired() {
					r.Cap("deadline")
					continue
				}
				us := usage(j.target)
				rl := rules{}
				for d := 0; d < fees.FeeDimensions; d++ {
					rl.target[d], rl.denom[d], rl.minp[d] = j.target, j.denom, j.minp
				}
				for _, price := range prices {
					for _, sa := range us {
						for _, sb := range us[:4] {
							// monotonicity: the usage alphabet sorted ascending as "last consumed"
							var prevNext uint64
							var prevLast uint64
							first := true
							sorted := append([]uint64{}, us...)
							sortU(sorted)
							for _, last := range sorted {
								t := tuple{price, sa, sb, last, j.target, j.denom, j.minp, j.since}
								var ts [fees.FeeDimensions]tuple
								for d := range ts {
									ts[d] = t
								}
								// vary the other dimensions a little so one call tests 5 tuples
								ts[1].price = price / 2
								ts[2].slotA = sa / 3
								ts[3].last = last / 2
								ts[4].slotB = sb + 1
								m := ifees.NewManager(encode(1, ts))
								nm := m.ComputeNext(int64((1+j.since)*1000), rl)
								for d := fees.Dimension(0); d < fees.FeeDimensions; d++ {
									evals.Add(1)
									wantP, wantW := ref(ts[d])
									gotP := nm.UnitPrice(d)
									gw := nm.Window(d)
									var gotW [window.WindowSize]uint64
									for s := range gotW {
										gotW[s] = binary.BigEndian.Uint64(gw[8*s:])
									}
									if gotW != wantW {
										r.Violation("C13:window-roll", fmt.Sprintf("window after %ds: got %v want %v", j.since, gotW, wantW), ts[d].m())
									}
									if gotP != wantP {
										kind := "price-not-exact"
										r.Violation("C13:"+kind, fmt.Sprintf("next price %d, exact rule gives %d for %+v", gotP, wantP, ts[d]), ts[d].m())
									} else if gotP != ts[d].price {
										nontriv.Add(1)
									}
									if gotP < ts[d].minp {
										r.Violation("C13:below-min-price", fmt.Sprintf("next price %d < min %d", gotP, ts[d].minp), ts[d].m())
									}
									if nm.LastConsumed(d) != 0 {
										r.Violation("C13:consumed-not-reset", "next manager starts with non-zero consumption", ts[d].m())
									}
									switch {
									case gotP > ts[d].price:
										outcomes.Store("up", 1)
									case gotP < ts[d].price:
										outcomes.Store("down", 1)
									default:
										outcomes.Store("same", 1)
									}
								}
								// encoded state decodes to the same prices, window, consumption
								rm := ifees.NewManager(append([]byte{}, nm.Bytes()...))
								for d := fees.Dimension(0); d < fees.FeeDimensions; d++ {
									if rm.UnitPrice(d) != nm.UnitPrice(d) || rm.Window(d) != nm.Window(d) || rm.LastConsumed(d) != nm.LastConsumed(d) {
										r.Violation("C13:encoding-roundtrip", "NewManager(Bytes()) differs", ts[0].m())
									}
								}
								np := nm.UnitPrice(0)
								if !first && np < prevNext {
									r.Violation("C13:not-monotone-in-usage", fmt.Sprintf("last consumed %d -> next price %d, but %d -> %d (%+v)", prevLast, prevNext, last, np, t), t.m())
								}
								prevNext, prevLast, first = np, last, false
							}
						}
					}
				}
			}
		}()
	}
	wg.Wait()
	// Consume: all-or-nothing is C12; here only the rule.
	no := 0
	outcomes.Range(func(_, _ any) bool { no++; return true })
	r.Sample(tuple{1 << 62, 0, 0, 2000, 1000, 48, 100, 0}.m())
	r.Sample(tuple{100, 5, 5, 0, 1000, 48, 1, 25}.m())
	r.Cov["evaluations"] = int(evals.Load())
	r.Cov["distinct_nontrivial"] = int(nontriv.Load())
	r.Cov["distinct_outcomes"] = no
	r.Cov["rule"] = fmt.Sprintf("complete grid: %d prices x usage alphabets (slot9: |u|, slot4: 4, last consumed: |u| ascending for monotonicity) x %d targets x %d denominators x %d min prices x %d elapsed values, 5 dimension-variants per ComputeNext call; non-trivial = next price differs from previous price and equals the exact rule", len(prices), len(targets), len(denoms), len(minps), len(sinces))
	r.Assumptions = []string{"targets and denominators >= 1 (division by zero is outside the rule)", "elapsed time >= 0 and <= 9e15 s (int64 milliseconds)", "window semantics (roll by elapsed seconds, parent consumption added `elapsed` slots back, saturating sums) are taken as the definition of 'usage in the rolling window'"}
	r.Finish()
}

func (t tuple) m() map[string]any {
	return map[string]any{"price": t.price, "slot9": t.slotA, "slot4": t.slotB, "lastConsumed": t.last, "target": t.target, "denom": t.denom, "minPrice": t.minp, "sinceSeconds": t.since}
}

func sortU(a []uint64) {
	for i := range a {
		for j := i + 1; j < len(a); j++ {
			if a[j] < a[i] {
				a[i], a[j] = a[j], a[i]
			}
		}
	}
}
