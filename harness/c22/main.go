// C22: validity-window backfill trusts only the hash-linked ancestry of the sync target.
//
// The real BlockFetcherClient + Syncer + TimeValidityWindow (instrumented, controlled
// scheduler, virtual sleep) against a harness peer whose every answer is an environment
// choice from {correct, one block, truncated, reordered, forged block, empty, error,
// unparsable, no peer available}; after the deviation budget the peer answers correctly.
// Chains with distinct and equal timestamps, and chains short enough that the walk reaches
// genesis. Every interleaving of fetcher / syncer / waiting threads within the preemption
// bound x every answer sequence within the deviation bound. Oracle: Wait returns; the saved
// blocks are exactly the contiguous hash-linked descending run from the target's parent to
// the first block older than the window (or genesis); the tracked transactions are exactly
// those of the target and that run.
package main

import (
	"context"
	"crypto/sha256"
	"encoding/binary"
	"errors"
	"fmt"
	"os"
	"strings"

	"github.com/ava-labs/avalanchego/ids"
	"github.com/ava-labs/avalanchego/trace"
	"github.com/ava-labs/avalanchego/utils/logging"

	vw "github.com/ava-labs/hypersdk/internal/validitywindow"
	"github.com/ava-labs/hypersdk/internal/vshim/evid"
	"github.com/ava-labs/hypersdk/internal/vshim/vsched"
)

type htx struct {
	id  ids.ID
	exp int64
}

func (t *htx) GetID() ids.ID    { return t.id }
func (t *htx) GetExpiry() int64 { return t.exp }

type hblock struct {
	id, parent ids.ID
	ts         int64
	height     uint64
	txs        []*htx
	forged     bool
}

func (b *hblock) GetID() ids.ID         { return b.id }
func (b *hblock) GetParent() ids.ID     { return b.parent }
func (b *hblock) GetTimestamp() int64   { return b.ts }
func (b *hblock) GetHeight() uint64     { return b.height }
func (b *hblock) GetContainers() []*htx { return b.txs }
func (b *hblock) Contains(id ids.ID) bool {
	for _, t := range b.txs {
		if t.id == id {
			return true
		}
	}
	return false
}

// wire format: height(8) ts(8) parent(32) flag(1) ntx(1) txid(32)*
func (b *hblock) GetBytes() []byte {
	o := binary.BigEndian.AppendUint64(nil, b.height)
	o = binary.BigEndian.AppendUint64(o, uint64(b.ts))
	o = append(o, b.parent[:]...)
	f := byte(0)
	if b.forged {
		f = 1
	}
	o = append(o, f, byte(len(b.txs)))
	for _, t := range b.txs {
		o = append(o, t.id[:]...)
	}
	return o
}

type parser struct{}

func (parser) ParseBlock(_ context.Context, raw []byte) (*hblock, error) {
	if len(raw) < 50 || len(raw) != 50+32*int(raw[49]) {
		return nil, errors.New("unparsable block")
	}
	b := &hblock{height: binary.BigEndian.Uint64(raw), ts: int64(binary.BigEndian.Uint64(raw[8:])), forged: raw[48] == 1}
	copy(b.parent[:], raw[16:48])
	for i := 0; i < int(raw[49]); i++ {
		var id ids.ID
		copy(id[:], raw[50+32*i:])
		b.txs = append(b.txs, &htx{id: id, exp: 1 << 40})
	}
	b.id = ids.ID(sha256.Sum256(raw))
	return b, nil
}

func mkChain(tss []int64) []*hblock {
	var out []*hblock
	parent := ids.Empty
	for h, ts := range tss {
		b := &hblock{parent: parent, ts: ts, height: uint64(h)}
		b.txs = []*htx{{id: ids.ID{0xA0, byte(h)}, exp: 1 << 40}}
		b.id = ids.ID(sha256.Sum256(b.GetBytes()))
		out = append(out, b)
		parent = b.id
	}
	return out
}

type scenario struct {
	name   string
	tss    []int64
	window int64
}

var scenarios = []scenario{
	{"distinct timestamps, window inside the chain", []int64{0, 10, 20, 30, 40, 50, 60}, 25},
	{"equal timestamps at the window edge", []int64{0, 10, 20, 30, 30, 40, 40}, 10},
	{"young chain: the walk reaches genesis", []int64{0, 10, 20, 30}, 100},
	{"window edge exactly at a block timestamp", []int64{0, 10, 20, 30, 40}, 20},
}

const (
	aCorrect = iota
	aOneBlock
	aTruncated
	aReordered
	aForged
	aEmpty
	aError
	aUnparsable
	aWrongStart
	aGoodThenGarbage
	aGoodThenUnlinked
	aGoodThenReordered
	nAnswers
)

var answerNames = []string{"correct", "one block", "truncated", "reordered", "forged block", "empty", "error", "unparsable", "starts one block too low", "one good block then unparsable bytes", "one good block then an unlinked block", "one good block then the rest out of order"}

type peer struct {
	chain []*hblock
	log   []string
}

func (p *peer) correct(req *vw.BlockFetchRequest) [][]byte {
	var out [][]byte
	if req.BlockHeight >= uint64(len(p.chain)) {
		return nil
	}
	for h := int(req.BlockHeight); h >= 0; h-- {
		out = append(out, p.chain[h].GetBytes())
		if p.chain[h].ts < req.MinTimestamp {
			break
		}
	}
	return out
}

func (p *peer) FetchBlocksFromPeer(_ context.Context, _ ids.NodeID, req *vw.BlockFetchRequest) (*vw.BlockFetchResponse, error) {
	a := vsched.Choose(nAnswers)
	p.log = append(p.log, fmt.Sprintf("req(h=%d,min=%d)->%s", req.BlockHeight, req.MinTimestamp, answerNames[a]))
	good := p.correct(req)
	switch a {
	case aCorrect:
		return &vw.BlockFetchResponse{Blocks: good}, nil
	case aOneBlock:
		if len(good) > 1 {
			good = good[:1]
		}
		return &vw.BlockFetchResponse{Blocks: good}, nil
	case aTruncated:
		if len(good) > 0 {
			good = good[:len(good)-1]
		}
		return &vw.BlockFetchResponse{Blocks: good}, nil
	case aReordered:
		if len(good) > 1 {
			good = append([][]byte{good[1], good[0]}, good[2:]...)
		}
		return &vw.BlockFetchResponse{Blocks: good}, nil
	case aForged:
		// a well-formed block at the requested height with the right parent link upwards?
		// no: a forged block cannot have the id the child commits to; it carries a foreign tx
		if req.BlockHeight < uint64(len(p.chain)) {
			real := p.chain[req.BlockHeight]
			f := &hblock{parent: real.parent, ts: real.ts, height: real.height, forged: true, txs: []*htx{{id: ids.ID{0xFF, byte(real.height)}}}}
			rest := [][]byte{f.GetBytes()}
			if len(good) > 1 {
				rest = append(rest, good[1:]...)
			}
			return &vw.BlockFetchResponse{Blocks: rest}, nil
		}
		return &vw.BlockFetchResponse{}, nil
	case aEmpty:
		return &vw.BlockFetchResponse{}, nil
	case aError:
		return nil, errors.New("peer error / timeout")
	case aUnparsable:
		return &vw.BlockFetchResponse{Blocks: [][]byte{{1, 2, 3}}}, nil
	case aWrongStart:
		if len(good) > 1 {
			good = good[1:]
		}
		return &vw.BlockFetchResponse{Blocks: good}, nil
	case aGoodThenGarbage:
		// a valid prefix followed by a bad block: the prefix must be kept, the rest asked for again
		if len(good) > 1 {
			good = append([][]byte{good[0]}, []byte{1, 2, 3})
		}
		return &vw.BlockFetchResponse{Blocks: good}, nil
	case aGoodThenUnlinked:
		if len(good) > 1 && req.BlockHeight >= 1 {
			real := p.chain[req.BlockHeight-1]
			f := &hblock{parent: real.parent, ts: real.ts, height: real.height, forged: true, txs: []*htx{{id: ids.ID{0xFE, byte(real.height)}}}}
			good = append([][]byte{good[0], f.GetBytes()}, good[2:]...)
		}
		return &vw.BlockFetchResponse{Blocks: good}, nil
	case aGoodThenReordered:
		if len(good) > 2 {
			good = append([][]byte{good[0], good[2], good[1]}, good[3:]...)
		}
		return &vw.BlockFetchResponse{Blocks: good}, nil
	}
	panic("answer")
}

type sampler struct{}

func (sampler) Sample(context.Context, int) []ids.NodeID {
	if vsched.Choose(2) == 1 {
		return nil // no peer connected right now
	}
	return []ids.NodeID{{1}}
}

type store struct{ saved []*hblock }

func (s *store) SaveHistorical(b *hblock) error { s.saved = append(s.saved, b); return nil }

type index struct{ m map[ids.ID]*hblock }

func (i *index) GetExecutionBlock(_ context.Context, id ids.ID) (vw.ExecutionBlock[*htx], error) {
	if b, ok := i.m[id]; ok {
		return b, nil
	}
	return nil, errors.New("not found")
}

type obs struct {
	waitErr error
	saved   []*hblock
	marks   map[ids.ID]bool
	log     []string
	chain   []*hblock
}

func body(sc scenario, o **obs) func() {
	return func() {
		ob := &obs{}
		*o = ob
		ctx := context.Background()
		chain := mkChain(sc.tss)
		ob.chain = chain
		target := chain[len(chain)-1]
		idx := &index{m: map[ids.ID]*hblock{target.id: target}} // a state-synced node only knows the target
		getW := func(int64) int64 { return sc.window }
		win, err := vw.NewTimeValidityWindow[*htx](ctx, logging.NoLog{}, trace.Noop, idx, target, getW)
		if err != nil {
			panic(err)
		}
		p := &peer{chain: chain}
		cl := vw.NewBlockFetcherClient[*hblock](p, parser{}, sampler{})
		st := &store{}
		sy := vw.NewSyncer[*htx, *hblock](st, win, cl, getW)
		if err := sy.Start(ctx, target); err != nil {
			panic(err)
		}
		ob.waitErr = sy.Wait(ctx)
		ob.saved = st.saved
		ob.log = p.log
		// what is tracked now
		var all []*htx
		for _, b := range chain {
			all = append(all, b.txs...)
		}
		for h := range chain {
			all = append(all, &htx{id: ids.ID{0xFF, byte(h)}})
		}
		dup, err := win.IsRepeat(ctx, target, target.ts+1, all)
		if err != nil {
			panic(err)
		}
		ob.marks = map[ids.ID]bool{}
		for i, t := range all {
			ob.marks[t.id] = dup.Contains(i)
		}
	}
}

func check(sc scenario, ob *obs, out *vsched.Outcome) (string, string) {
	if out.Deadlock {
		return "backfill-hangs", fmt.Sprintf("deadlock: %v (peer log %v)", out.Blocked, ob.log)
	}
	if ob.waitErr != nil {
		return "wait-error", ob.waitErr.Error()
	}
	chain := ob.chain
	target := chain[len(chain)-1]
	minTS := target.ts - sc.window
	if minTS < 0 {
		minTS = 0
	}
	// expected run: from the target's parent down to the first block with ts < minTS (or genesis)
	var want []*hblock
	for h := len(chain) - 2; h >= 0; h-- {
		want = append(want, chain[h])
		if chain[h].ts < minTS {
			break
		}
	}
	desc := func(bs []*hblock) string {
		var s []string
		for _, b := range bs {
			f := ""
			if b.forged {
				f = "FORGED"
			}
			s = append(s, fmt.Sprintf("h%d%s", b.height, f))
		}
		return strings.Join(s, ",")
	}
	for i, b := range ob.saved {
		if i >= len(want) || b.id != want[i].id {
			return "unlinked-block-recorded", fmt.Sprintf("saved blocks [%s], the linked ancestry to record is [%s] (peer log %v)", desc(ob.saved), desc(want), ob.log)
		}
	}
	if len(ob.saved) != len(want) {
		return "backfill-incomplete", fmt.Sprintf("Wait returned after saving [%s], the window needs [%s] (peer log %v)", desc(ob.saved), desc(want), ob.log)
	}
	tracked := map[ids.ID]bool{}
	for _, b := range append([]*hblock{target}, want...) {
		for _, t := range b.txs {
			tracked[t.id] = true
		}
	}
	for id, m := range ob.marks {
		if m != tracked[id] {
			return "tracked-set-wrong", fmt.Sprintf("transaction %x: tracked=%v expected=%v (saved [%s], peer log %v)", id[:2], m, tracked[id], desc(ob.saved), ob.log)
		}
	}
	return "", ""
}

func main() {
	r := evid.Start("C22", "exploration")
	if evid.RacePass() {
		return // the harness peer's answers are scheduler choices; the free-running pass has nothing to add beyond C09's
	}
	devBound := evid.Pick(r, 3, 4)
	preBound := evid.Pick(r, 2, 3)
	run := func(i int) evid.ShardResult {
		sc := scenarios[i]
		res := evid.ShardResult{Name: sc.name, Counts: map[string]int{}}
		var o *obs
		outcomes := map[string]bool{}
		ex := &vsched.Explorer{Body: body(sc, &o), MaxPreemptions: preBound, MaxDeviations: devBound, Horizon: 4000, Stop: r.Expired, StopAtFirst: true,
			Check: func(out *vsched.Outcome) (string, string) {
				k, w := check(sc, o, out)
				if k == "" {
					outcomes[strings.Join(o.log, ";")] = true
				}
				return k, w
			},
			OnViolation: func(key, what string, choices []int, out *vsched.Outcome) {
				if key == "livelock-horizon" {
					key = "backfill-never-completes"
					what = fmt.Sprintf("the fetcher keeps requesting forever although the peer answers correctly (%s); peer log tail %v", what, tail(o))
				}
				res.Violations = append(res.Violations, evid.ShardViolation{Key: "C22:" + key, What: what + " [" + sc.name + "]", Replay: map[string]any{"scenario": sc.name, "choices": choices, "index": i}})
			}}
		if !ex.Run() {
			res.Infra = ex.Diverged
		}
		if !ex.Exhaustive && ex.Violations == 0 {
			res.Capped = "deadline reached inside a scenario"
		}
		res.Counts["executions"] = ex.Executions
		res.Counts["complete"] = ex.Complete
		res.Counts["conflicting"] = ex.Conflicting
		res.Counts["distinct_answer_sequences"] = len(outcomes)
		if len(ex.SampleTraces) > 0 {
			res.Sample = map[string]any{"scenario": sc.name, "schedule": ex.SampleTraces[0]}
		}
		return res
	}
	if len(os.Args) > 2 && os.Args[1] == "--one" {
		var i int
		fmt.Sscan(os.Args[2], &i)
		fmt.Printf("%+v\n", run(i))
		return
	}
	if idx, ok := evid.ReplayIndex(); ok {
		res := run(idx)
		fmt.Printf("replay scenario %d (%s): %d violation(s)\n", idx, res.Name, len(res.Violations))
		for _, v := range res.Violations {
			fmt.Println(" ", v.Key, v.What)
		}
		if len(res.Violations) > 0 {
			os.Exit(1)
		}
		os.Exit(0)
	}
	tot, _ := r.Sharded(len(scenarios), run)
	r.Cov["evaluations"] = tot["executions"]
	r.Cov["distinct_nontrivial"] = tot["distinct_answer_sequences"]
	r.Cov["complete_executions"] = tot["complete"]
	r.Cov["scenarios"] = len(scenarios)
	r.Cov["preemption_bound"] = preBound
	r.Cov["deviation_bound"] = devBound
	r.Cov["rule"] = fmt.Sprintf("%d chains x every sequence of peer answers with at most %d non-correct answers from {one block, truncated, reordered, forged block, empty, error, unparsable, starts too low, good prefix then unparsable / unlinked / out-of-order tail, no peer available} (then correct answers) x every interleaving of fetcher, syncer and waiter within %d preemptions; step horizon 4000 per execution", len(scenarios), devBound, preBound)
	r.Assumptions = []string{"the syncing node knows only the target (state sync); peers serve blocks by height as the real handler does", "sleeps are virtual (yield); the request timeout is a peer answer (error)", "sequential consistency"}
	r.Finish()
}

func tail(o *obs) []string {
	if o == nil {
		return nil
	}
	l := o.log
	if len(l) > 4 {
		l = l[len(l)-4:]
	}
	return l
}
