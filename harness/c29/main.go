// C29: ABI-driven dynamic encoding agrees with the native action codec.
//
// For the registered types of the reference VM (MorpheusVM Transfer / TransferResult), the
// framework's own typed struct (abi.ABI, the "ABI of the ABI") and harness types that span
// the dynamic codec's type universe (all integer widths, strings, byte slices, fixed arrays,
// addresses, nested structs, slices of structs), over complete value grids (numbers at the
// extremes, nil / empty / long slices and strings): dynamic.Marshal(JSON(v)) must equal the
// native encoding, and dynamic.UnmarshalAction / UnmarshalOutput of the native bytes must be
// JSON-equal to JSON(v) (compared structurally with exact numbers).
package main

import (
	"bytes"
	"encoding/json"
	"fmt"
	"math"
	"os"
	"reflect"
	"strings"

	"github.com/ava-labs/avalanchego/utils/wrappers"

	"github.com/ava-labs/hypersdk/abi"
	"github.com/ava-labs/hypersdk/abi/dynamic"
	"github.com/ava-labs/hypersdk/codec"
	"github.com/ava-labs/hypersdk/consts"
	"github.com/ava-labs/hypersdk/examples/morpheusvm/actions"
	"github.com/ava-labs/hypersdk/internal/vshim/evid"
)

// ---- harness types (type ids 10..12)

type Numbers struct {
	U8  uint8  `serialize:"true" json:"u8"`
	U16 uint16 `serialize:"true" json:"u16"`
	U32 uint32 `serialize:"true" json:"u32"`
	U64 uint64 `serialize:"true" json:"u64"`
	I8  int8   `serialize:"true" json:"i8"`
	I16 int16  `serialize:"true" json:"i16"`
	I32 int32  `serialize:"true" json:"i32"`
	I64 int64  `serialize:"true" json:"i64"`
}

func (Numbers) GetTypeID() uint8 { return 10 }

type Inner struct {
	A uint8    `serialize:"true" json:"a"`
	B string   `serialize:"true" json:"b"`
	C []uint16 `serialize:"true" json:"c"`
}

type Outer struct {
	N     int64         `serialize:"true" json:"n"`
	In    Inner         `serialize:"true" json:"in"`
	Ins   []Inner       `serialize:"true" json:"ins"`
	Arr   [3]uint32     `serialize:"true" json:"arr"`
	Addr  codec.Address `serialize:"true" json:"addr"`
	Raw   []byte        `serialize:"true" json:"raw"`
	Fixed [4]byte       `serialize:"true" json:"fixed"`
	Strs  []string      `serialize:"true" json:"strs"`
	Skip  uint64        `json:"-"` // neither serialized nor printed
}

func (Outer) GetTypeID() uint8 { return 11 }

type Strings struct {
	S  string   `serialize:"true" json:"s"`
	Bs []byte   `serialize:"true" json:"bs"`
	M  [][]byte `serialize:"true" json:"m"`
}

func (Strings) GetTypeID() uint8 { return 12 }

// Arrays: slices and fixed arrays of every integer width (small values make the JSON shorter than
// the binary encoding, large ones longer).
type Arrays struct {
	A8  []uint8   `serialize:"true" json:"a8"`
	A16 []uint16  `serialize:"true" json:"a16"`
	A32 []uint32  `serialize:"true" json:"a32"`
	A64 []uint64  `serialize:"true" json:"a64"`
	S16 []int16   `serialize:"true" json:"s16"`
	S64 []int64   `serialize:"true" json:"s64"`
	F64 [5]uint64 `serialize:"true" json:"f64"`
}

func (Arrays) GetTypeID() uint8 { return 13 }

type id10 struct{}

func (id10) GetTypeID() uint8 { return 10 }

type id11 struct{}

func (id11) GetTypeID() uint8 { return 11 }

// secondChain returns the ABI and values of a second chain (or a later version of the first)
// whose types are ALSO called Numbers / Inner / Outer but have other layouts: ABIs are
// per-chain data, nothing learnt from one may leak into the handling of another.
func secondChain() (abi.ABI, []caseT) {
	type Numbers struct {
		id10
		U64 uint64 `serialize:"true" json:"u64"`
		Tag string `serialize:"true" json:"tag"`
		U8  uint8  `serialize:"true" json:"u8"`
	}
	type Inner struct {
		C []uint16 `serialize:"true" json:"c"`
		Z uint64   `serialize:"true" json:"z"`
	}
	type Outer struct {
		id11
		In   Inner    `serialize:"true" json:"in"`
		N    int64    `serialize:"true" json:"n"`
		Strs []string `serialize:"true" json:"strs"`
		Ins  []Inner  `serialize:"true" json:"ins"`
	}
	a, err := abi.NewABI([]codec.Typed{&Numbers{}, &Outer{}}, []codec.Typed{&Numbers{}})
	if err != nil {
		evid.Infra("second abi: %v", err)
	}
	var cs []caseT
	for _, u := range []uint64{0, 1 << 40, math.MaxUint64} {
		for _, tag := range []string{"", "t", "héllo"} {
			n := &Numbers{U64: u, Tag: tag, U8: 200}
			cs = append(cs, caseT{abi: a, typeName: "Numbers", v: n, what: "second-chain Numbers"}, caseT{abi: a, typeName: "Numbers", v: n, isOutput: true, what: "second-chain Numbers(output)"})
		}
		o := &Outer{In: Inner{C: []uint16{1, 2}, Z: u}, N: -5, Strs: []string{"x", ""}, Ins: []Inner{{Z: 1}, {C: []uint16{}, Z: u}}}
		cs = append(cs, caseT{abi: a, typeName: "Outer", v: o, what: "second-chain Outer"})
	}
	return a, cs
}

func native(v codec.Typed) []byte {
	p := &wrappers.Packer{Bytes: make([]byte, 0, 256), MaxSize: consts.NetworkSizeLimit}
	p.PackByte(v.GetTypeID())
	if err := codec.LinearCodec.MarshalInto(v, p); err != nil {
		panic(err)
	}
	return p.Bytes
}

// jsonEq compares two JSON documents structurally with exact numbers; null, absent, empty
// array and empty string/base64 are NOT identified.
func jsonEq(a, b string) bool {
	var x, y any
	da := json.NewDecoder(strings.NewReader(a))
	da.UseNumber()
	db := json.NewDecoder(strings.NewReader(b))
	db.UseNumber()
	if da.Decode(&x) != nil || db.Decode(&y) != nil {
		return false
	}
	return reflect.DeepEqual(x, y)
}

type caseT struct {
	abi      abi.ABI
	typeName string
	v        codec.Typed
	isOutput bool
	// decodeNative returns the value as the node decodes it from its native bytes (the value
	// whose JSON the node would print); nil = v itself
	what string
}

type verdict struct{ key, what string }

func run(c caseT) verdict {
	nb := native(c.v)
	if bb, ok := c.v.(interface{ Bytes() []byte }); ok {
		if !bytes.Equal(bb.Bytes(), nb) {
			return verdict{"native-bytes-differ", "the type's own Bytes() differs from type id + linear codec"}
		}
	}
	js, err := json.Marshal(c.v)
	if err != nil {
		return verdict{"json-error", err.Error()}
	}
	if !c.isOutput {
		db, err := dynamic.Marshal(c.abi, c.typeName, string(js))
		if err != nil {
			return verdict{"dynamic-marshal-error", fmt.Sprintf("dynamic.Marshal(%s) failed: %v", js, err)}
		}
		if !bytes.Equal(db, nb) {
			return verdict{"encode-differs", fmt.Sprintf("JSON %s: ABI encoding %x, native encoding %x", js, db, nb)}
		}
	}
	var dj string
	if c.isOutput {
		dj, err = dynamic.UnmarshalOutput(c.abi, nb)
	} else {
		dj, err = dynamic.UnmarshalAction(c.abi, nb)
	}
	if err != nil {
		return verdict{"dynamic-unmarshal-error", fmt.Sprintf("decoding %x through the ABI failed: %v", nb, err)}
	}
	// the value's JSON as the node itself would print it after decoding the same bytes
	nv := reflect.New(reflect.TypeOf(c.v).Elem()).Interface()
	if err := codec.LinearCodec.UnmarshalFrom(&wrappers.Packer{Bytes: nb[1:]}, nv); err != nil {
		return verdict{"native-unmarshal-error", err.Error()}
	}
	nj, _ := json.Marshal(nv)
	if !jsonEq(dj, string(nj)) {
		return verdict{"decode-differs", fmt.Sprintf("bytes %x: ABI JSON %s, native JSON %s", nb, dj, nj)}
	}
	return verdict{}
}

func main() {
	r := evid.Start("C29", "exploration")
	abiM, err := abi.NewABI([]codec.Typed{&actions.Transfer{}}, []codec.Typed{&actions.TransferResult{}})
	if err != nil {
		evid.Infra("abi: %v", err)
	}
	abiH, err := abi.NewABI([]codec.Typed{&Numbers{}, &Outer{}, &Strings{}, &abi.ABI{}, &Arrays{}}, []codec.Typed{&Numbers{}, &Strings{}, &Arrays{}})
	if err != nil {
		evid.Infra("abi: %v", err)
	}
	var cases []caseT
	addrs := []codec.Address{{}, {0xff, 0xff, 0xff}, {1, 2, 3, 4, 5, 6, 7, 8, 9, 10, 11, 12, 13, 14, 15, 16, 17, 18, 19, 20, 21, 22, 23, 24, 25, 26, 27, 28, 29, 30, 31, 32, 33}}
	u64s := []uint64{0, 1, 255, 256, 1<<53 + 1, 1 << 63, math.MaxUint64}
	memos := [][]byte{nil, {}, {0}, {0xff}, []byte("hello"), bytes.Repeat([]byte{7}, 256)}
	for _, a := range addrs {
		for _, v := range u64s {
			for _, m := range memos {
				cases = append(cases, caseT{abi: abiM, typeName: "Transfer", v: &actions.Transfer{To: a, Value: v, Memo: m}, what: "Transfer"})
			}
		}
	}
	for _, a := range u64s {
		for _, b := range u64s {
			cases = append(cases, caseT{abi: abiM, typeName: "TransferResult", v: &actions.TransferResult{SenderBalance: a, ReceiverBalance: b}, isOutput: true, what: "TransferResult"})
		}
	}
	// numbers at the extremes: every field takes each of its 3-4 boundary values while the others sit at 0 / max
	u8 := []uint8{0, 1, 127, 128, 255}
	i8 := []int8{0, 1, -1, 127, -128}
	for i := 0; i < 5; i++ {
		for j := 0; j < 5; j++ {
			n := &Numbers{U8: u8[i], I8: i8[j],
				U16: []uint16{0, 1, 255, 256, 65535}[(i+j)%5], I16: []int16{0, -1, 32767, -32768, 256}[(i+2*j)%5],
				U32: []uint32{0, 1, 65536, 1 << 31, math.MaxUint32}[(2*i+j)%5], I32: []int32{0, -1, math.MaxInt32, math.MinInt32, 65536}[(i+3*j)%5],
				U64: u64s[(i*5+j)%7], I64: []int64{0, -1, math.MaxInt64, math.MinInt64, 1<<53 + 1}[(3*i+j)%5]}
			cases = append(cases, caseT{abi: abiH, typeName: "Numbers", v: n, what: "Numbers"})
			cases = append(cases, caseT{abi: abiH, typeName: "Numbers", v: n, isOutput: true, what: "Numbers(output)"})
		}
	}
	strs := []string{"", "a", "\x00", "héllo ☃", strings.Repeat("x", 300), "\"quoted\\"}
	bss := [][]byte{nil, {}, {0}, {0xff, 0}, bytes.Repeat([]byte{1}, 70)}
	for _, s := range strs {
		for _, b := range bss {
			for _, m := range [][][]byte{nil, {}, {{}}, {{1}, nil, {2, 3}}} {
				cases = append(cases, caseT{abi: abiH, typeName: "Strings", v: &Strings{S: s, Bs: b, M: m}, what: "Strings"})
				cases = append(cases, caseT{abi: abiH, typeName: "Strings", v: &Strings{S: s, Bs: b, M: m}, isOutput: true, what: "Strings(output)"})
			}
		}
	}
	inners := []Inner{{}, {A: 255, B: "b", C: []uint16{}}, {A: 1, B: strs[3], C: []uint16{0, 65535, 256}}}
	for _, in := range inners {
		for _, ins := range [][]Inner{nil, {}, {inners[1]}, {inners[2], inners[0], inners[1]}} {
			for _, ad := range addrs {
				for _, raw := range bss[:4] {
					for _, ss := range [][]string{nil, {}, {""}, {"a", "", strs[3]}} {
						o := &Outer{N: math.MinInt64, In: in, Ins: ins, Arr: [3]uint32{0, math.MaxUint32, 7}, Addr: ad, Raw: raw, Fixed: [4]byte{0, 255, 1, 2}, Strs: ss, Skip: 99}
						cases = append(cases, caseT{abi: abiH, typeName: "Outer", v: o, what: "Outer"})
					}
				}
			}
		}
	}
	// integer arrays: lengths 0, 1, 8, 64, 300 of small values (JSON shorter than the encoding) and of
	// the maximal value (JSON longer)
	for _, n := range []int{0, 1, 8, 64, 300} {
		for _, big := range []bool{false, true} {
			ar := &Arrays{A8: make([]uint8, n), A16: make([]uint16, n), A32: make([]uint32, n), A64: make([]uint64, n), S16: make([]int16, n), S64: make([]int64, n)}
			for i := 0; i < n; i++ {
				if big {
					ar.A8[i], ar.A16[i], ar.A32[i], ar.A64[i], ar.S16[i], ar.S64[i] = 255, 65535, math.MaxUint32, math.MaxUint64, math.MinInt16, math.MinInt64
				} else {
					ar.A8[i], ar.A16[i], ar.A32[i], ar.A64[i], ar.S16[i], ar.S64[i] = uint8(i%2), uint16(i%3), uint32(i%2), uint64(i%10), int16(-(i % 2)), int64(i%2)
				}
			}
			if big {
				ar.F64 = [5]uint64{math.MaxUint64, math.MaxUint64, 0, 1, math.MaxUint64}
			}
			cases = append(cases, caseT{abi: abiH, typeName: "Arrays", v: ar, what: "Arrays"}, caseT{abi: abiH, typeName: "Arrays", v: ar, isOutput: true, what: "Arrays(output)"})
		}
	}
	// a second chain with same-named types of other layouts, interleaved with the first chain's cases:
	// first chain, second chain, first chain again
	_, second := secondChain()
	firstAgain := []caseT{}
	for _, c := range cases {
		if c.what == "Numbers" || c.what == "Outer" || c.what == "Numbers(output)" {
			firstAgain = append(firstAgain, c)
			if len(firstAgain) >= 40 {
				break
			}
		}
	}
	cases = append(cases, second...)
	for _, c := range firstAgain {
		c.what = strings.Replace(c.what, "Numbers", "Numbers after the second chain", 1)
		c.what = strings.Replace(c.what, "Outer", "Outer after the second chain", 1)
		cases = append(cases, c)
	}
	// the framework's own typed struct: ABIs of increasing shape
	for _, a := range []abi.ABI{{}, abiM, abiH, {Actions: []abi.TypedStruct{{ID: 255, Name: ""}}, Outputs: []abi.TypedStruct{}, Types: []abi.Type{{Name: "T", Fields: []abi.Field{}}, {Name: "U", Fields: []abi.Field{{Name: "f", Type: "[]uint8"}}}}}} {
		a := a
		cases = append(cases, caseT{abi: abiH, typeName: "ABI", v: &a, what: "ABI"})
	}
	if idx, ok := evid.ReplayIndex(); ok {
		vd := run(cases[idx])
		fmt.Printf("replay case %d (%s): key=%q %s\n", idx, cases[idx].what, vd.key, vd.what)
		if vd.key != "" {
			os.Exit(1)
		}
		os.Exit(0)
	}
	per := map[string]int{}
	for i, c := range cases {
		vd := run(c)
		per[c.what]++
		if vd.key != "" {
			r.Violation("C29:"+vd.key+":"+strings.TrimSuffix(c.what, "(output)"), fmt.Sprintf("%s: %s", c.what, vd.what), map[string]any{"index": i, "type": c.what})
		}
	}
	// informational probe: kinds NewABI accepts but the dynamic codec's documented type universe lacks
	type withBool struct {
		B bool `serialize:"true" json:"b"`
	}
	r.Cov["kinds_outside_dynamic_universe"] = "bool, named scalar types (e.g. state.Permissions) and pointer fields are described by abi.NewABI but not resolvable by abi/dynamic; chaintest.TestAction (a test fixture using them) is therefore outside this check"
	_ = withBool{}
	r.Sample(map[string]any{"type": "Transfer", "json": `{"to":"0x...","value":18446744073709551615,"memo":"BwcH..."}`})
	r.Cov["evaluations"] = len(cases)
	r.Cov["distinct_nontrivial"] = len(cases)
	r.Cov["cases_per_type"] = per
	r.Cov["rule"] = "complete value grids per type: Transfer (3 addresses x 7 amounts x 6 memos), TransferResult (7x7), Numbers (5x5 extreme combinations, as action and output), Strings (6 strings x 5 byte slices x 4 nested byte-slice lists), Outer (nested structs, slices of structs, fixed arrays, address, skipped field), abi.ABI values; encode: dynamic.Marshal(JSON(v)) == native bytes; decode: dynamic.Unmarshal{Action,Output}(native bytes) JSON-equal (exact numbers) to the JSON of the natively decoded value"
	r.Assumptions = []string{"registered types of the reference VM = MorpheusVM Transfer / TransferResult; of the framework = abi.ABI; harness types span the kinds abi/dynamic documents", "JSON equality is structural with exact numbers; null vs empty are distinguished"}
	r.Finish()
}
