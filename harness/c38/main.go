// C38: fee bonds are released exactly once per bonded transaction.
//
// Explicit-state search over build-chunk / accept histories on the real fdsmr.Node with the
// real internal/chain.Bonder on memdb (stub inner DSMR that returns the chunks the harness
// names). Reference model: per sponsor the set of bonded, unsettled transactions with their
// fees. After every step: pending balance in the bonder database = sum of the fees of the
// sponsor's bonded transactions that are neither accepted nor expired, <= the maximum; the
// transactions handed to the inner DSMR are exactly those the model bonds.
package main

import (
	"context"
	"errors"
	"encoding/binary"
	"fmt"
	"math"
	"os"
	"sort"
	"strings"

	"github.com/ava-labs/avalanchego/database"
	"github.com/ava-labs/avalanchego/database/memdb"

	"github.com/ava-labs/hypersdk/chain"
	"github.com/ava-labs/hypersdk/chain/chaintest"
	"github.com/ava-labs/hypersdk/codec"
	ichain "github.com/ava-labs/hypersdk/internal/chain"
	"github.com/ava-labs/hypersdk/internal/vshim/evid"
	"github.com/ava-labs/hypersdk/internal/vshim/seqx"
	"github.com/ava-labs/hypersdk/verifh/rig"
	"github.com/ava-labs/hypersdk/x/dsmr"
	"github.com/ava-labs/hypersdk/x/fdsmr"
)

type tx = *chain.Transaction

// stub inner DSMR
type stubDSMR struct {
	built    [][]tx
	next     [][]tx // chunks of the block being accepted
	failNext bool   // the next inner BuildChunk fails (rate limit, duplicate chunk, signing error)
}

var errInner = errors.New("inner DSMR refused the chunk")

func (s *stubDSMR) BuildChunk(_ context.Context, txs []tx, _ int64, _ codec.Address) error {
	if s.failNext {
		s.failNext = false
		return errInner
	}
	s.built = append(s.built, append([]tx{}, txs...))
	return nil
}

func (s *stubDSMR) Accept(_ context.Context, b dsmr.Block) (dsmr.ExecutedBlock[tx], error) {
	eb := dsmr.ExecutedBlock[tx]{BlockHeader: b.BlockHeader}
	for _, c := range s.next {
		eb.Chunks = append(eb.Chunks, dsmr.Chunk[tx]{UnsignedChunk: dsmr.UnsignedChunk[tx]{Txs: c}})
	}
	return eb, nil
}

type mapMutable struct{ m map[string][]byte }

func (s *mapMutable) GetValue(_ context.Context, k []byte) ([]byte, error) {
	if v, ok := s.m[string(k)]; ok {
		return v, nil
	}
	return nil, database.ErrNotFound
}
func (s *mapMutable) Insert(_ context.Context, k, v []byte) error { s.m[string(k)] = v; return nil }
func (s *mapMutable) Remove(_ context.Context, k []byte) error    { delete(s.m, string(k)); return nil }

// the transaction universe: index -> (sponsor, expiry, extra size)
type txDef struct {
	name    string
	sponsor int
	expiry  int64
	pad     int
}

var txDefs = []txDef{{"A1", 0, 10000, 0}, {"A2", 0, 20000, 40}, {"B1", 1, 10000, 7}}

var env = rig.NewEnvLite(nil, nil)

func mkTx(d txDef) tx {
	a := &chaintest.TestAction{NumComputeUnits: 1, Nonce: uint64(d.pad), SpecifiedStateKeys: nil, WriteValues: [][]byte{make([]byte, d.pad)}}
	return env.MakeTx(d.sponsor, []chain.Action{a}, 0, rig.TxOpts{Expiry: d.expiry})
}

var txs []tx

type opKind int

const (
	oBuild opKind = iota
	oAccept
)

type op struct {
	kind opKind
	list []int // tx indices (build: submitted list; accept: accepted transactions)
	ts   int64
	rate uint64
	fail bool // build: the inner DSMR refuses the chunk after the transactions were bonded
	name string
}

var ops []op

// initial configurations: (maxA symbol, maxB symbol, rate)
type config struct {
	maxA, maxB int // symbols
	rate       uint64
}

var maxNames = []string{"0", "fee(A1)", "fee(A1)+fee(A2)", "fee(A1)+fee(A2)-1", "large", "2^64-1"}

func maxVal(sym int, rate uint64) uint64 {
	f1 := uint64(txs[0].Size()) * rate
	f2 := uint64(txs[1].Size()) * rate
	switch sym {
	case 0:
		return 0
	case 1:
		return f1
	case 2:
		return f1 + f2
	case 3:
		return f1 + f2 - 1
	case 4:
		return 1 << 40
	}
	return math.MaxUint64
}

var configs []config

func init() {
	for _, d := range txDefs {
		txs = append(txs, mkTx(d))
	}
	lists := [][]int{{0}, {1}, {2}, {0, 0}, {0, 1}, {1, 0, 2}, {0, 2, 0}}
	for _, l := range lists {
		n := []string{}
		for _, i := range l {
			n = append(n, txDefs[i].name)
		}
		for _, rate := range []uint64{1, 3} {
			ops = append(ops, op{kind: oBuild, list: l, rate: rate, name: fmt.Sprintf("build-chunk[%s]@rate%d", strings.Join(n, ","), rate)})
		}
		if len(l) <= 2 {
			ops = append(ops, op{kind: oBuild, list: l, rate: 1, fail: true, name: "build-chunk[" + strings.Join(n, ",") + "]@rate1, inner DSMR refuses"})
		}
	}
	for _, ts := range []int64{5000, 10001, 25000} {
		for _, l := range [][]int{{}, {0}, {1}, {2}, {0, 1, 2}} {
			n := []string{}
			for _, i := range l {
				n = append(n, txDefs[i].name)
			}
			ops = append(ops, op{kind: oAccept, list: l, ts: ts, name: fmt.Sprintf("accept(ts=%d, txs=[%s])", ts, strings.Join(n, ","))})
		}
	}
	for ma := 0; ma < 6; ma++ {
		for _, mb := range []int{1, 4} {
			configs = append(configs, config{ma, mb, 1})
		}
	}
}

func hist(h []int) []string {
	var out []string
	for i, x := range h {
		if i == 0 {
			c := configs[x]
			out = append(out, fmt.Sprintf("config(max A=%s, max B=%s in units of the rate-1 fees)", maxNames[c.maxA], maxNames[c.maxB]))
			continue
		}
		out = append(out, ops[x].name)
	}
	return out
}

func exec(h []int) seqx.Result {
	if len(h) == 0 {
		en := make([]int, len(configs))
		for i := range en {
			en[i] = i
		}
		return seqx.Result{Key: "root", Enabled: en}
	}
	ctx := context.Background()
	cfg := configs[h[0]]
	db := memdb.New()
	bonder := ichain.NewBonder(db)
	inner := &stubDSMR{}
	node := fdsmr.New[*stubDSMR, tx](inner, bonder)
	mut := &mapMutable{m: map[string][]byte{}}
	maxes := []uint64{maxVal(cfg.maxA, cfg.rate), maxVal(cfg.maxB, cfg.rate)}
	for s := 0; s < 2; s++ {
		if err := bonder.SetMaxBalance(ctx, mut, rig.Addr(s), maxes[s]); err != nil {
			evid.Infra("SetMaxBalance: %v", err)
		}
	}
	viol := func(k, w string) seqx.Result {
		return seqx.Result{Violation: &seqx.Violation{Key: "C38:" + k, What: w}}
	}
	// model: bonded unsettled tx index -> fee
	bonded := map[int]uint64{}
	pendingOf := func(s int) uint64 {
		var sum uint64
		for i, f := range bonded {
			if txDefs[i].sponsor == s {
				sum += f
			}
		}
		return sum
	}
	outcome := ""
	for step, x := range h[1:] {
		o := ops[x]
		switch o.kind {
		case oBuild:
			var in []tx
			var want []int
			for _, i := range o.list {
				in = append(in, txs[i])
				fee := uint64(txs[i].Size()) * o.rate
				if _, dup := bonded[i]; dup {
					want = append(want, i) // already bonded: still covered by its bond
					continue
				}
				s := txDefs[i].sponsor
				if pendingOf(s)+fee <= maxes[s] && pendingOf(s)+fee >= fee {
					bonded[i] = fee
					want = append(want, i)
				}
			}
			nb := len(inner.built)
			inner.failNext = o.fail
			err := node.BuildChunk(ctx, mut, in, 30000, codec.EmptyAddress, o.rate)
			if o.fail {
				if !errors.Is(err, errInner) {
					return viol("inner-error-swallowed", fmt.Sprintf("step %d %s: BuildChunk returned %v", step, o.name, err))
				}
				outcome = "build-refused-by-inner"
				break
			}
			if err != nil {
				return viol("build-error", fmt.Sprintf("step %d %s: %v", step, o.name, err))
			}
			if len(inner.built) != nb+1 {
				return viol("no-chunk-built", fmt.Sprintf("step %d %s", step, o.name))
			}
			got := inner.built[nb]
			// every transaction handed to the inner DSMR must be covered by a bond, and every
			// transaction the model bonds fresh must be handed over; (re-submitted bonded
			// transactions may or may not be passed on again: the statement does not say)
			gotSet := map[int]int{}
			for _, g := range got {
				for i := range txs {
					if txs[i].GetID() == g.GetID() {
						gotSet[i]++
					}
				}
			}
			for i := range gotSet {
				if _, ok := bonded[i]; !ok {
					return viol("unbonded-tx-in-chunk", fmt.Sprintf("step %d %s: %s was put into a chunk although its bond was refused", step, o.name, txDefs[i].name))
				}
			}
			_ = want
			outcome = fmt.Sprintf("build:%d/%d", len(got), len(in))
		case oAccept:
			inner.next = nil
			if len(o.list) > 0 {
				var c []tx
				for _, i := range o.list {
					c = append(c, txs[i])
				}
				inner.next = [][]tx{c}
			}
			blk := dsmr.Block{BlockHeader: dsmr.BlockHeader{Timestamp: o.ts}}
			if _, err := node.Accept(ctx, blk); err != nil {
				return viol("accept-error", fmt.Sprintf("step %d %s: %v", step, o.name, err))
			}
			for i := range bonded {
				if txDefs[i].expiry < o.ts {
					delete(bonded, i) // expired
				}
			}
			for _, i := range o.list {
				delete(bonded, i) // accepted
			}
			outcome = "accept"
		}
		// ---- oracle
		for s := 0; s < 2; s++ {
			a := rig.Addr(s)
			raw, err := db.Get(a[:])
			var got uint64
			if err == nil {
				got = binary.BigEndian.Uint64(raw)
			} else if err != database.ErrNotFound {
				evid.Infra("db: %v", err)
			}
			want := pendingOf(s)
			if got > maxes[s] {
				return viol("pending-exceeds-max", fmt.Sprintf("step %d %s: sponsor %c pending bond %d > maximum %d", step, o.name, 'A'+s, got, maxes[s]))
			}
			if got != want {
				k := "pending-differs"
				if want == 0 {
					k = "pending-not-zero-after-all-settled"
				}
				return viol(k, fmt.Sprintf("step %d %s: sponsor %c pending bond in the bonder db = %d, sum of fees of its bonded unsettled transactions = %d", step, o.name, 'A'+s, got, want))
			}
		}
	}
	var ks []string
	it := db.NewIterator()
	for it.Next() {
		ks = append(ks, fmt.Sprintf("%x=%x", it.Key(), it.Value()))
	}
	it.Release()
	sort.Strings(ks)
	en := make([]int, len(ops))
	for i := range en {
		en[i] = i
	}
	return seqx.Result{Key: fmt.Sprintf("c%d|%s|%s", h[0], strings.Join(ks, ";"), node.VerifPending()), Enabled: en, Outcome: outcome}
}

func main() {
	r := evid.Start("C38", "model_checking")
	if p := evid.ReplayPayload(); p != nil {
		var h []int
		for _, x := range p["ops"].([]any) {
			h = append(h, int(x.(float64)))
		}
		res := exec(h)
		fmt.Println("replay", hist(h))
		if res.Violation != nil {
			fmt.Println("  violation:", res.Violation.Key, res.Violation.What)
			os.Exit(1)
		}
		fmt.Println("  held")
		os.Exit(0)
	}
	depth := evid.Pick(r, 5, 7) // including the configuration step
	s := &seqx.Search{Exec: exec, MaxDepth: depth, Stop: r.Expired,
		OnViolation: func(h []int, v *seqx.Violation) {
			r.Violation(v.Key, v.What, map[string]any{"history": hist(h), "ops": h})
		}}
	st := s.Run()
	if !st.Complete {
		r.Cap("deadline reached before the depth bound")
	}
	for _, h := range st.Samples {
		r.Sample(hist(h))
	}
	r.Cov["states"] = st.States
	r.Cov["transitions"] = st.Transitions
	r.Cov["traces_validated_against_impl"] = st.Transitions
	r.Cov["max_depth"] = st.MaxDepth
	r.Cov["distinct_outcomes"] = len(st.Outcomes)
	r.Cov["frontier_unexpanded_at_bound"] = st.Frontier
	r.Cov["bounds"] = map[string]any{"depth_incl_config": depth, "configs": len(configs), "ops": len(ops), "txs": len(txs), "sponsors": 2}
	r.Cov["explanation"] = "every transition runs the real fdsmr.Node + internal/chain.Bonder on a fresh memdb with the history replayed; state key = bonder database content + pending-expiry heap layout + configuration"
	r.Assumptions = []string{"a bonded transaction keeps the fee it was bonded with; re-submission (at any rate) does not re-bond it", "inner DSMR is a stub that accepts exactly the chunks the harness names", "3 transactions, 2 sponsors"}
	r.Finish()
}
