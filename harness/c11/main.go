// C11: verified blocks extend their parent correctly. Complete grid of child headers
// (height, timestamp, tx count, state root) against two kinds of parents (the real genesis
// commit, an executed block) through Processor.Execute with a frozen clock.
package main

import (
	"fmt"
	"time"

	"github.com/ava-labs/avalanchego/database/memdb"
	"github.com/ava-labs/avalanchego/ids"
	"github.com/ava-labs/avalanchego/trace"
	"github.com/ava-labs/avalanchego/utils/logging"
	"github.com/ava-labs/avalanchego/x/merkledb"

	"github.com/ava-labs/hypersdk/chain"
	"github.com/ava-labs/hypersdk/genesis"
	"github.com/ava-labs/hypersdk/internal/validitywindow/validitywindowtest"
	"github.com/ava-labs/hypersdk/internal/vshim/evid"
	"github.com/ava-labs/hypersdk/internal/vshim/vsched"
	"github.com/ava-labs/hypersdk/internal/workers"
	"github.com/ava-labs/hypersdk/verifh/rig"
)

type parent struct {
	name   string
	view   merkledb.View
	blk    *chain.ExecutionBlock
	height uint64
	ts     int64 // header timestamp
}

func main() {
	r := evid.Start("C11", "exploration")
	evals, nontriv := 0, 0
	rules := rig.DefaultRules()
	env := rig.NewEnvLite(rules, nil)
	env.Metrics = rig.NewEnv(rig.EnvConfig{}).Metrics
	db, err := merkledb.New(rig.Ctx, memdb.New(), merkledb.Config{BranchFactor: merkledb.BranchFactor16, Tracer: trace.Noop})
	if err != nil {
		evid.Infra("%v", err)
	}
	gen := genesis.NewDefaultGenesis([]*genesis.CustomAllocation{{Address: rig.Addr(0), Balance: 1 << 50}})
	gen.Rules = rules
	gblk, gview, err := chain.NewGenesisCommit(rig.Ctx, db, gen, env.MM, env.BH, env.RF, trace.Noop, logging.NoLog{})
	if err != nil {
		evid.Infra("genesis: %v", err)
	}
	vw := &validitywindowtest.MockTimeValidityWindow[*chain.Transaction]{}
	proc := func() *chain.Processor {
		return env.NewProcessor(1, 1, workers.NewSerial(), vw, nil)
	}
	gTs := gblk.Tmstmp
	now := gTs + 10_000_000
	vsched.FreezeClock(now)
	parents := []parent{{"genesis", gview, gblk, 0, gTs}}
	// an executed child and grandchild of genesis as further parents
	{
		b1 := env.MakeBlock(gview, gblk.GetID(), 1, gTs+1000, nil)
		o1, err := proc().Execute(rig.Ctx, gview, b1, true)
		if err != nil {
			evid.Infra("block 1: %v", err)
		}
		parents = append(parents, parent{"height-1 block", o1.View, b1, 1, b1.Tmstmp})
		tx := env.MakeTx(0, []chain.Action{&rig.OpAction{Compute: 1, Start: -1, End: -1}}, gTs+2000, rig.TxOpts{})
		b2 := env.MakeBlock(o1.View, b1.GetID(), 2, gTs+2000, []*chain.Transaction{tx})
		o2, err := proc().Execute(rig.Ctx, o1.View, b2, true)
		if err != nil {
			evid.Infra("block 2: %v", err)
		}
		parents = append(parents, parent{"height-2 block with a transaction", o2.View, b2, 2, b2.Tmstmp})
	}
	gap, egap := rules.MinBlockGap, rules.MinEmptyBlockGap
	bound := int64(chain.FutureBound / time.Millisecond)
	// pass 1: a fresh Processor per child (the verdict as a function of parent and child alone);
	// passes 2-3: ONE long-lived Processor verifies the whole grid, forwards and backwards, so every
	// child is preceded by verified siblings, cousins and blocks of other heights: the verdict must not
	// depend on what the processor verified before
	first := map[string]bool{}
	shared := proc()
	shared2 := proc()
	for _, pass := range []struct {
		name, suffix string
		mk           func() *chain.Processor
		reverse      bool
	}{{"fresh processor", "", proc, false}, {"long-lived processor", ":after-other-blocks", func() *chain.Processor { return shared }, false}, {"long-lived processor, reverse order", ":after-other-blocks", func() *chain.Processor { return shared2 }, true}} {
		mkProc := pass.mk
		ps := append([]parent{}, parents...)
		if pass.reverse {
			ps[0], ps[2] = ps[2], ps[0]
		}
		for _, p := range ps {
			root, _ := p.view.GetMerkleRoot(rig.Ctx)
			tsGrid := []int64{p.ts - 1000, p.ts - 1, p.ts, p.ts + 1, p.ts + gap - 1, p.ts + gap, p.ts + egap - 1, p.ts + egap, p.ts + egap + 1, now, now + bound, now + bound + 1,
				gap, egap, 1_000_000, // small absolute timestamps (relevant for the genesis parent whose state says 0)
				0, -1, -1000, -(1 << 62)} // and non-positive ones (wrap to huge values if compared unsigned)
			if pass.reverse {
				for i, j := 0, len(tsGrid)-1; i < j; i, j = i+1, j-1 {
					tsGrid[i], tsGrid[j] = tsGrid[j], tsGrid[i]
				}
			}
			for _, h := range []uint64{p.height, p.height + 1, p.height + 2, 0, p.height + 1<<40} {
				for _, ts := range tsGrid {
					for _, ntx := range []int{0, 1} {
						for _, rightRoot := range []bool{true, false} {
							evals++
							var txs []*chain.Transaction
							if ntx == 1 {
								txs = []*chain.Transaction{env.MakeTx(0, []chain.Action{&rig.OpAction{Compute: 1, Nonce: uint64(evals), Start: -1, End: -1}}, ts, rig.TxOpts{})}
							}
							rt := root
							if !rightRoot {
								rt = ids.ID{0xde, 0xad}
							}
							sb, err := chain.NewStatelessBlock(p.blk.GetID(), ts, h, txs, rt, nil)
							if err != nil {
								evid.Infra("%v", err)
							}
							_, verr := mkProc().Execute(rig.Ctx, p.view, chain.NewExecutionBlock(sb), true)
							need := gap
							if ntx == 0 && egap > gap {
								need = egap
							}
							want := h == p.height+1 && ts >= p.ts+need && ts <= now+bound && rightRoot
							rep := map[string]any{"parent": p.name, "parentHeight": p.height, "parentTimestamp": p.ts, "height": h, "timestamp": ts, "txs": ntx, "rootMatches": rightRoot, "now": now}
							ck := fmt.Sprint(p.name, h, ts, ntx, rightRoot)
							if pass.suffix == "" {
								first[ck] = verr == nil
							} else {
								if first[ck] != (verr == nil) {
									r.Violation("C11:verdict-depends-on-previously-verified-blocks", fmt.Sprintf("[%s] child of %s: height %d ts %d txs %d rootMatches=%v -> err=%v, but a fresh processor says valid=%v (expected valid=%v)", pass.name, p.name, h, ts, ntx, rightRoot, verr, first[ck], want), rep)
								}
								continue
							}
							if (verr == nil) != want {
								key := "C11:rejects-valid-child"
								if !want {
									switch {
									case h != p.height+1:
										key = "C11:accepts-wrong-height"
									case !rightRoot:
										key = "C11:accepts-wrong-root"
									case ts > now+bound:
										key = "C11:accepts-future-block"
									case p.height == 0 && ts >= need:
										// valid against the timestamp 0 the genesis STATE holds, below the genesis header's
										key = "C11:genesis-child:ts<genesis-header-ts+gap"
									default:
										key = "C11:accepts-timestamp-below-parent+gap"
									}
								}
								r.Violation(key, fmt.Sprintf("child of %s (parent header ts %d, height %d): height %d ts %d txs %d rootMatches=%v -> err=%v, expected valid=%v", p.name, p.ts, p.height, h, ts, ntx, rightRoot, verr, want), rep)
							}
							if want {
								nontriv++
							}
							if evals%97 == 0 {
								r.Sample(rep)
							}
						}
					}
				}
			}
		}
	}
	r.Cov["evaluations"] = evals
	r.Cov["distinct_nontrivial"] = nontriv
	r.Cov["rule"] = "3 parents (real NewGenesisCommit, executed empty height-1 block, executed height-2 block with a transaction) x height {h, h+1, h+2, 0, huge} x timestamp {parent-1s, parent+-1, parent+gap(-1), parent+emptyGap(+-1), now, now+bound(+1), small absolute values} x txs {0,1} x root {right, wrong}; parent timestamp = the parent block's header timestamp; non-trivial = valid children; timestamps include 0 and negative values; the grid is verified by a fresh Processor per child and twice by one long-lived Processor (forwards, backwards)"
	r.Assumptions = []string{"default rule gaps (100 ms / 750 ms)", "frozen local clock"}
	r.Finish()
}
