// C17: signatures are non-malleable and bind to the actor's address.
//
// For 3 deterministic keys x 3 messages per scheme (ed25519, secp256r1, BLS): the honest auth
// verifies, round-trips, and its actor/sponsor address starts with the scheme's type id and
// is a function of the public key. Then EVERY single-bit flip of the auth encoding (type
// byte, public key, signature), every algebraic re-encoding (ed25519: s + k*l for every k
// that fits; secp256r1: (r, n-s), (r+n, s) when it fits, zero r/s, 02<->03 prefix; BLS:
// negated / infinity points), every truncation and extension, and every cross-combination
// (signature of another key or message) must fail to parse or fail to verify.
package main

import (
	"bytes"
	"context"
	"fmt"
	"math/big"
	"os"
	"runtime"
	"sync"
	"sync/atomic"

	blst "github.com/supranational/blst/bindings/go"

	"github.com/ava-labs/hypersdk/auth"
	"github.com/ava-labs/hypersdk/chain"
	"github.com/ava-labs/hypersdk/internal/vshim/evid"
	"github.com/ava-labs/hypersdk/verifh/rigkeys"
)

var ctx = context.Background()

type scheme struct {
	name   string
	id     uint8
	pkLen  int
	sigLen int
	parse  func([]byte) (chain.Auth, error)
}

var schemes = []scheme{
	{"ed25519", auth.ED25519ID, 32, 64, auth.UnmarshalED25519},
	{"secp256r1", auth.SECP256R1ID, 33, 64, auth.UnmarshalSECP256R1},
	{"bls", auth.BLSID, 48, 96, auth.UnmarshalBLS},
}

var messages = [][]byte{[]byte("m"), bytes.Repeat([]byte{0xab}, 200), {}}

type candidate struct {
	scheme int
	key    int
	msg    int
	enc    []byte
	what   string
}

// accepts reports whether the node would accept enc as an auth over msg.
func accepts(s scheme, enc, msg []byte) (ok bool, parsed bool, canonical bool) {
	ok, parsed, canonical, _ = accepts2(s, enc, msg)
	return
}

func accepts2(s scheme, enc, msg []byte) (ok bool, parsed bool, canonical bool, actor string) {
	a, err := s.parse(enc)
	if err != nil {
		return false, false, false, ""
	}
	canonical = bytes.Equal(a.Bytes(), enc)
	return a.Verify(ctx, msg) == nil, true, canonical, fmt.Sprintf("%x", a.Actor())
}

var (
	edL, _   = new(big.Int).SetString("7237005577332262213973186563042994240857116359379907606001950938285454250989", 10)
	p256N, _ = new(big.Int).SetString("115792089210356248762697446949407573529996955224135760342422259061068512044369", 10)
)

// blsTorsion returns two deterministic non-trivial points of E(Fp) whose order divides the G1
// cofactor: r * P for curve points P found by counting upwards from fixed abscissas.
var blsTorsionOnce sync.Once
var blsTorsionPts []*blst.P1

func blsTorsion() []*blst.P1 {
	blsTorsionOnce.Do(func() {
		rBE, _ := new(big.Int).SetString("73eda753299d7d483339d80809a1d80553bda402fffe5bfeffffffff00000001", 16)
		rLE := bigToLE(rBE, 32)
		for seed := byte(1); len(blsTorsionPts) < 2 && seed < 250; seed++ {
			cand := bytes.Repeat([]byte{seed}, 48)
			cand[0] = 0x80 | (cand[0] & 0x0f)
			aff := new(blst.P1Affine).Uncompress(cand)
			if aff == nil {
				continue
			}
			var p blst.P1
			p.FromAffine(aff)
			tor := p.Mult(rLE, 255)
			ta := tor.ToAffine()
			if ta.Equals(new(blst.P1Affine)) || ta.InG1() {
				continue
			}
			blsTorsionPts = append(blsTorsionPts, tor)
		}
		if len(blsTorsionPts) == 0 {
			evid.Infra("no BLS torsion point found")
		}
	})
	return blsTorsionPts
}

func leToBig(b []byte) *big.Int {
	r := make([]byte, len(b))
	for i := range b {
		r[len(b)-1-i] = b[i]
	}
	return new(big.Int).SetBytes(r)
}

func bigToLE(x *big.Int, n int) []byte {
	be := x.FillBytes(make([]byte, n))
	for i, j := 0, n-1; i < j; i, j = i+1, j-1 {
		be[i], be[j] = be[j], be[i]
	}
	return be
}

func main() {
	r := evid.Start("C17", "exploration")
	var cands []candidate
	type honest struct {
		enc  []byte
		addr string
		pk   []byte
	}
	hon := map[[3]int]honest{}
	nKeys := 3
	for si, s := range schemes {
		for k := 0; k < nKeys; k++ {
			f := rigkeys.Factory(s.name, k)
			for mi, m := range messages {
				a, err := f.Sign(m)
				if err != nil {
					evid.Infra("sign: %v", err)
				}
				enc := a.Bytes()
				if len(enc) != 1+s.pkLen+s.sigLen {
					evid.Infra("%s auth has %d bytes", s.name, len(enc))
				}
				// ---- honest auth: verifies, round-trips, address binding
				ok, parsed, canon := accepts(s, enc, m)
				if !ok || !parsed || !canon {
					r.Violation("C17:honest-auth-rejected", fmt.Sprintf("%s key %d msg %d: parsed=%v verifies=%v round-trips=%v", s.name, k, mi, parsed, ok, canon), map[string]any{"scheme": s.name, "key": k, "msg": mi})
				}
				pa, _ := s.parse(enc)
				for _, ad := range []struct {
					n string
					b [33]byte
				}{{"actor", pa.Actor()}, {"sponsor", pa.Sponsor()}, {"factory", f.Address()}, {"signed-actor", a.Actor()}} {
					if ad.b[0] != s.id {
						r.Violation("C17:address-type-id", fmt.Sprintf("%s %s address starts with %d, not the scheme's type id %d", s.name, ad.n, ad.b[0], s.id), map[string]any{"scheme": s.name})
					}
					if ad.b != f.Address() {
						r.Violation("C17:address-differs", fmt.Sprintf("%s %s address differs from the factory address of the same key", s.name, ad.n), map[string]any{"scheme": s.name})
					}
				}
				if pa.GetTypeID() != s.id {
					r.Violation("C17:type-id", "GetTypeID", nil)
				}
				hon[[3]int{si, k, mi}] = honest{enc, fmt.Sprintf("%x", pa.Actor()), enc[1 : 1+s.pkLen]}
				add := func(e []byte, what string) {
					cands = append(cands, candidate{si, k, mi, e, what})
				}
				// ---- every single-bit flip
				for bit := 0; bit < len(enc)*8; bit++ {
					e := append([]byte{}, enc...)
					e[bit/8] ^= 1 << (bit % 8)
					part := "signature"
					if bit < 8 {
						part = "type byte"
					} else if bit < 8*(1+s.pkLen) {
						part = "public key"
					}
					add(e, fmt.Sprintf("bit %d (%s) flipped", bit, part))
				}
				// ---- truncations / extensions
				for n := 0; n < len(enc); n++ {
					add(append([]byte{}, enc[:n]...), fmt.Sprintf("truncated to %d bytes", n))
				}
				add(append(append([]byte{}, enc...), 0), "one zero byte appended")
				add(append(append([]byte{}, enc...), enc[len(enc)-1]), "last byte duplicated")
				add(append([]byte{enc[0]}, enc...), "type byte duplicated")
				sigOff := 1 + s.pkLen
				// ---- algebraic re-encodings
				switch s.name {
				case "ed25519":
					sv := leToBig(enc[sigOff+32:])
					for kk := int64(1); ; kk++ {
						x := new(big.Int).Add(sv, new(big.Int).Mul(big.NewInt(kk), edL))
						if x.BitLen() > 256 {
							break
						}
						e := append([]byte{}, enc...)
						copy(e[sigOff+32:], bigToLE(x, 32))
						add(e, fmt.Sprintf("s replaced by s+%d*l", kk))
					}
					// l - s (negated scalar), with and without the sign bit of R flipped
					neg := new(big.Int).Sub(edL, sv)
					e := append([]byte{}, enc...)
					copy(e[sigOff+32:], bigToLE(neg, 32))
					add(e, "s replaced by l-s")
					e2 := append([]byte{}, e...)
					e2[sigOff+31] ^= 0x80
					add(e2, "s replaced by l-s and R negated")
					e3 := append([]byte{}, e2...)
					e3[1+31] ^= 0x80
					add(e3, "s replaced by l-s, R and A negated")
				case "secp256r1":
					rv := new(big.Int).SetBytes(enc[sigOff : sigOff+32])
					sv := new(big.Int).SetBytes(enc[sigOff+32:])
					e := append([]byte{}, enc...)
					copy(e[sigOff+32:], new(big.Int).Sub(p256N, sv).FillBytes(make([]byte, 32)))
					add(e, "s replaced by n-s")
					if x := new(big.Int).Add(rv, p256N); x.BitLen() <= 256 {
						e := append([]byte{}, enc...)
						copy(e[sigOff:], x.FillBytes(make([]byte, 32)))
						add(e, "r replaced by r+n")
					}
					if x := new(big.Int).Add(sv, p256N); x.BitLen() <= 256 {
						e := append([]byte{}, enc...)
						copy(e[sigOff+32:], x.FillBytes(make([]byte, 32)))
						add(e, "s replaced by s+n")
					}
					for _, z := range []string{"r", "s", "both"} {
						e := append([]byte{}, enc...)
						if z != "s" {
							copy(e[sigOff:sigOff+32], make([]byte, 32))
						}
						if z != "r" {
							copy(e[sigOff+32:], make([]byte, 32))
						}
						add(e, "zero "+z)
					}
				case "bls":
					// compressed points: bit 0x20 of the first byte is the sign; 0x40 infinity
					e := append([]byte{}, enc...)
					e[sigOff] ^= 0x20
					e[1] ^= 0x20
					add(e, "signature and public key both negated")
					inf := append([]byte{}, enc...)
					for i := sigOff; i < len(inf); i++ {
						inf[i] = 0
					}
					inf[sigOff] = 0xc0
					add(inf, "signature = point at infinity")
					inf2 := append([]byte{}, inf...)
					for i := 1; i < sigOff; i++ {
						inf2[i] = 0
					}
					inf2[1] = 0xc0
					add(inf2, "public key and signature = point at infinity")
					// public key shifted by points of the curve outside the prime-order subgroup: the
					// pairing cannot see the shift, only the subgroup check of the key parser can
					for ti, tor := range blsTorsion() {
						var pk blst.P1
						aff := new(blst.P1Affine).Uncompress(enc[1:sigOff])
						if aff == nil {
							evid.Infra("honest BLS key does not decompress")
						}
						pk.FromAffine(aff)
						e := append([]byte{}, enc...)
						copy(e[1:], pk.Add(tor).ToAffine().Compress())
						add(e, fmt.Sprintf("public key shifted by small-order curve point #%d (outside the prime-order subgroup)", ti))
					}
				}
			}
		}
	}
	// ---- cross-combinations: signature of another (key, message) of the same scheme
	for si, s := range schemes {
		for k := 0; k < nKeys; k++ {
			for mi := range messages {
				for k2 := 0; k2 < nKeys; k2++ {
					for m2 := range messages {
						if k2 == k && m2 == mi {
							continue
						}
						a, b := hon[[3]int{si, k, mi}], hon[[3]int{si, k2, m2}]
						e := append([]byte{}, a.enc...)
						copy(e[1+s.pkLen:], b.enc[1+s.pkLen:])
						cands = append(cands, candidate{si, k, mi, e, fmt.Sprintf("signature taken from key %d message %d", k2, m2)})
					}
				}
			}
		}
		// distinct keys => distinct addresses
		for k := 0; k < nKeys; k++ {
			for k2 := k + 1; k2 < nKeys; k2++ {
				if hon[[3]int{si, k, 0}].addr == hon[[3]int{si, k2, 0}].addr {
					r.Violation("C17:address-collision", fmt.Sprintf("%s keys %d and %d share an address", s.name, k, k2), nil)
				}
			}
		}
	}
	// addresses across schemes differ in the first byte by construction; checked above.
	if idx, ok := evid.ReplayIndex(); ok {
		c := cands[idx]
		s := schemes[c.scheme]
		okv, parsed, canon := accepts(s, c.enc, messages[c.msg])
		fmt.Printf("replay candidate %d: %s key %d msg %d: %s -> parsed=%v verifies=%v canonical=%v\n", idx, s.name, c.key, c.msg, c.what, parsed, okv, canon)
		if okv {
			os.Exit(1)
		}
		os.Exit(0)
	}
	var done, parsedN, nonCanon, relatedKey atomic.Int64
	var wg sync.WaitGroup
	nw := runtime.NumCPU()
	for w := 0; w < nw; w++ {
		wg.Add(1)
		go func(w int) {
			defer wg.Done()
			for i := w; i < len(cands); i += nw {
				if r.Expired() {
					r.Cap("deadline reached")
					return
				}
				c := cands[i]
				s := schemes[c.scheme]
				h := hon[[3]int{c.scheme, c.key, c.msg}]
				if bytes.Equal(c.enc, h.enc) {
					continue // the re-encoding is the identity (e.g. s+0)
				}
				ok, parsed, canon, actor := accepts2(s, c.enc, messages[c.msg])
				done.Add(1)
				if ok && actor != h.addr {
					sigOff := 1 + s.pkLen
					if len(c.enc) == len(h.enc) && bytes.Equal(c.enc[sigOff:], h.enc[sigOff:]) {
						// the SAME signature bytes verify under a second public-key encoding: within this
						// mutation alphabet no algebraic identity produces that (it would need ECDSA key
						// recovery), so the verifier accepted a key it must reject (unchecked prefix,
						// point outside the prime-order subgroup, stale key cache ...)
						r.Violation("C17:signature-verifies-under-a-second-public-key:"+s.name, fmt.Sprintf("%s key %d message %d: the honest signature also verifies under a different public-key encoding (%s); the transaction id and the actor change without the signer's key", s.name, c.key, c.msg, c.what),
							map[string]any{"index": i, "scheme": s.name, "mutation": c.what, "encoding": fmt.Sprintf("%x", c.enc), "honest": fmt.Sprintf("%x", h.enc)})
					}
					// otherwise: a valid auth of a DIFFERENT account with a different signature (e.g. BLS:
					// (-pk, -sig) is the honest signature of the key -sk): not an alternative encoding of
					// this signer's key or signature. Counted, not a violation.
					relatedKey.Add(1)
					ok = false
				}
				if parsed {
					parsedN.Add(1)
					if !canon {
						nonCanon.Add(1)
					}
				}
				if ok {
					r.Violation("C17:malleable:"+s.name, fmt.Sprintf("%s key %d message %d: an alternative auth encoding verifies for the same message (%s)", s.name, c.key, c.msg, c.what),
						map[string]any{"index": i, "scheme": s.name, "mutation": c.what, "encoding": fmt.Sprintf("%x", c.enc), "honest": fmt.Sprintf("%x", h.enc)})
				}
				if parsed && !canon && i%97 == 0 {
					r.Sample(map[string]any{"scheme": s.name, "mutation": c.what, "note": "parses, re-encodes differently, does not verify"})
				}
			}
		}(w)
	}
	wg.Wait()
	// verifying the alternatives must not have changed what the verifier thinks of the honest auths
	for key, h := range hon {
		s := schemes[key[0]]
		if ok, _, _, actor := accepts2(s, h.enc, messages[key[2]]); !ok || actor != h.addr {
			r.Violation("C17:honest-auth-rejected-after-other-verifications:"+s.name, fmt.Sprintf("%s key %d message %d: the honest auth verified at first and is rejected (or maps to another actor) after the alternative encodings were presented", s.name, key[1], key[2]), nil)
		}
	}
	r.Sample(map[string]any{"scheme": "ed25519", "mutation": cands[9].what})
	r.Cov["evaluations"] = done.Load()
	r.Cov["distinct_nontrivial"] = parsedN.Load()
	r.Cov["mutants_that_parse"] = parsedN.Load()
	r.Cov["valid_auths_of_a_different_account_derived_without_the_key"] = relatedKey.Load()
	r.Cov["mutants_that_parse_non_canonically"] = nonCanon.Load()
	r.Cov["rule"] = "3 schemes x 3 deterministic keys x 3 messages (1 byte, 200 bytes, empty): all single-bit flips of the whole auth encoding, all truncations, 3 extensions, scheme-specific algebraic re-encodings (ed25519 s+k*l for all k that fit in 256 bits, l-s with R/A negations; secp256r1 n-s, r+n, s+n, zero r/s; BLS joint negation, infinity points, public key shifted by curve points outside the prime-order subgroup); the honest auths are re-verified after all alternatives (no verifier state may have been poisoned), and all signature swaps between (key, message) pairs"
	r.Assumptions = []string{"keys are honestly generated (ZIP-215 deliberately accepts small-order public keys, whose owner-less addresses can be spent by anyone; not a malleability of a signer's signature)", "3 keys and 3 messages per scheme"}
	r.Finish()
}
