// C01: parallel block execution is deterministic and equals sequential execution.
//
// Part A (inputs x configurations): every block of up to 3 (thorough 4) transactions from a
// shape menu, over parent states {keys absent, present}, sponsor assignments {distinct,
// shared}, cores {1,2,4,16} x prefetch workers {1,4} x signature workers {serial, parallel 2}
// is executed by the real chain.Processor (under the controlled scheduler, default
// deterministic schedule of each configuration) and compared with the sequential reference.
// Part B (schedules): conflict-pattern blocks with 2 cores, 2 prefetch workers: every
// interleaving up to the preemption bound (HB-pruned); all executions must agree with the
// reference (and hence with each other).
package main

import (
	"context"
	"fmt"
	"os"
	"runtime/pprof"
	"sort"
	"strconv"
	"strings"
	"sync"

	"github.com/ava-labs/avalanchego/ids"
	"github.com/ava-labs/avalanchego/x/merkledb"

	"github.com/ava-labs/hypersdk/chain"
	"github.com/ava-labs/hypersdk/internal/validitywindow/validitywindowtest"
	"github.com/ava-labs/hypersdk/internal/vshim/evid"
	"github.com/ava-labs/hypersdk/internal/vshim/vsched"
	"github.com/ava-labs/hypersdk/internal/workers"
	"github.com/ava-labs/hypersdk/state"
	"github.com/ava-labs/hypersdk/verifh/rig"
)

var (
	k1 = rig.Key("k1", 1)
	k2 = rig.Key("k2", 1)
	k3 = rig.Key("k3", 1)
	// undeclared by everybody:
	kU = rig.Key("kU", 1)
)

const blockTs = 1000

type shape struct {
	name    string
	actions func() []*rig.OpAction
}

func act(decl []rig.KeyPerm, script ...rig.Step) *rig.OpAction {
	return &rig.OpAction{Declared: decl, Script: script, Compute: 1, Start: -1, End: -1}
}
func dk(k string, p state.Permissions) rig.KeyPerm { return rig.KeyPerm{Key: k, Perm: p} }

var shapes = []shape{
	{"read k1", func() []*rig.OpAction {
		return []*rig.OpAction{act([]rig.KeyPerm{dk(k1, state.Read)}, rig.Step{Kind: rig.Get, Key: k1})}
	}},
	{"append k1", func() []*rig.OpAction {
		return []*rig.OpAction{act([]rig.KeyPerm{dk(k1, state.All)}, rig.Step{Kind: rig.Append, Key: k1, Val: []byte("a")})}
	}},
	{"append k1 (b)", func() []*rig.OpAction {
		return []*rig.OpAction{act([]rig.KeyPerm{dk(k1, state.All)}, rig.Step{Kind: rig.Append, Key: k1, Val: []byte("b")})}
	}},
	{"copy k1->k2", func() []*rig.OpAction {
		return []*rig.OpAction{act([]rig.KeyPerm{dk(k1, state.Read), dk(k2, state.All)}, rig.Step{Kind: rig.Copy, Key: k1, Val: []byte(k2)})}
	}},
	{"copy k2->k1", func() []*rig.OpAction {
		return []*rig.OpAction{act([]rig.KeyPerm{dk(k2, state.Read), dk(k1, state.All)}, rig.Step{Kind: rig.Copy, Key: k2, Val: []byte(k1)})}
	}},
	{"delete k1", func() []*rig.OpAction {
		return []*rig.OpAction{act([]rig.KeyPerm{dk(k1, state.Write)}, rig.Step{Kind: rig.Del, Key: k1})}
	}},
	{"allocate k3", func() []*rig.OpAction {
		return []*rig.OpAction{act([]rig.KeyPerm{dk(k3, state.All)}, rig.Step{Kind: rig.Put, Key: k3, Val: []byte("n")})}
	}},
	{"write k1 then fail", func() []*rig.OpAction {
		return []*rig.OpAction{act([]rig.KeyPerm{dk(k1, state.All)}, rig.Step{Kind: rig.Put, Key: k1, Val: []byte("z")}, rig.Step{Kind: rig.Fail})}
	}},
	{"undeclared write", func() []*rig.OpAction {
		return []*rig.OpAction{act([]rig.KeyPerm{dk(k1, state.Read)}, rig.Step{Kind: rig.Get, Key: k1}, rig.Step{Kind: rig.Put, Key: kU, Val: []byte("u")})}
	}},
	{"two actions on k1", func() []*rig.OpAction {
		return []*rig.OpAction{
			act([]rig.KeyPerm{dk(k1, state.All)}, rig.Step{Kind: rig.Put, Key: k1, Val: []byte("x")}),
			act([]rig.KeyPerm{dk(k1, state.Read)}, rig.Step{Kind: rig.Get, Key: k1}),
		}
	}},
	{"read k1+k2, append k2", func() []*rig.OpAction {
		return []*rig.OpAction{act([]rig.KeyPerm{dk(k1, state.Read), dk(k2, state.All)}, rig.Step{Kind: rig.Get, Key: k1}, rig.Step{Kind: rig.Append, Key: k2, Val: []byte("c")})}
	}},
	{"read k2", func() []*rig.OpAction {
		return []*rig.OpAction{act([]rig.KeyPerm{dk(k2, state.Read)}, rig.Step{Kind: rig.Get, Key: k2})}
	}},
	// shapes used by the 4-transaction owner/reader patterns of part B only (appended so that
	// the part-A enumeration keeps its indices)
	{"put k1+k2", func() []*rig.OpAction {
		return []*rig.OpAction{act([]rig.KeyPerm{dk(k1, state.All), dk(k2, state.All)}, rig.Step{Kind: rig.Put, Key: k1, Val: []byte("p")}, rig.Step{Kind: rig.Put, Key: k2, Val: []byte("q")})}
	}},
	{"append k2", func() []*rig.OpAction {
		return []*rig.OpAction{act([]rig.KeyPerm{dk(k2, state.All)}, rig.Step{Kind: rig.Append, Key: k2, Val: []byte("d")})}
	}},
	{"put k1=1 (the parent's value)", func() []*rig.OpAction {
		return []*rig.OpAction{act([]rig.KeyPerm{dk(k1, state.All)}, rig.Step{Kind: rig.Put, Key: k1, Val: []byte("1")})}
	}},
	{"put k1=x", func() []*rig.OpAction {
		return []*rig.OpAction{act([]rig.KeyPerm{dk(k1, state.All)}, rig.Step{Kind: rig.Put, Key: k1, Val: []byte("x")})}
	}},
	{"copy k2->k3", func() []*rig.OpAction {
		return []*rig.OpAction{act([]rig.KeyPerm{dk(k2, state.Read), dk(k3, state.All)}, rig.Step{Kind: rig.Copy, Key: k2, Val: []byte(k3)})}
	}},
}

const partAShapes = 12 // part A enumerates blocks over the first 12 shapes (+ the restore patterns below)

// 4-transaction patterns: an owner of two keys, a reader of one of them, then writers of each
// key (the reader must stay ordered before the later writer of ITS key even when a writer of
// the owner's other key has come in between). Explored at preemption bound 0 (quick) / 1.
var partB4 = [][]int{
	{12, 16, 1, 13}, // W(k1,k2) ; R k2 -> k3 ; W k1 ; W k2
	{12, 11, 13, 1}, // W(k1,k2) ; R k2 ; W k2 ; W k1
	{12, 0, 13, 1},  // W(k1,k2) ; R k1 ; W k2 ; W k1
	{3, 11, 1, 13},  // R k1 W k2 ; R k2 ; W k1 ; W k2
}

type blockSpec struct {
	shapes      []int
	present     bool // parent has k1,k2
	sameSponsor bool
	poor        int // index of a tx whose sponsor cannot pay (-1 none): block must be invalid
}

func (b blockSpec) String() string {
	n := []string{}
	for _, s := range b.shapes {
		n = append(n, shapes[s].name)
	}
	return fmt.Sprintf("txs=[%s] parentHasKeys=%v sameSponsor=%v poorSponsorAt=%d", strings.Join(n, " | "), b.present, b.sameSponsor, b.poor)
}

type cfg struct {
	cores, fetchers int
	parallelSig     bool
}

func (c cfg) String() string {
	return fmt.Sprintf("cores=%d fetchers=%d parallelSig=%v", c.cores, c.fetchers, c.parallelSig)
}

type recordingView struct {
	merkledb.View
	mu    sync.Mutex
	reads map[string]int
}

func (r *recordingView) GetValue(ctx context.Context, k []byte) ([]byte, error) {
	r.mu.Lock()
	r.reads[string(k)]++
	r.mu.Unlock()
	return r.View.GetValue(ctx, k)
}

type scenarioRun struct {
	env   *rig.Env
	block *chain.ExecutionBlock
	ref   *rig.SeqOutcome
	decl  map[string]bool
	model map[string]string // independent post-state of the universe keys (nil if the block is invalid)
}

func prepare(bs blockSpec) *scenarioRun {
	st := map[string][]byte{}
	if bs.present {
		st[k1] = []byte("1")
		st[k2] = []byte("2")
	}
	bal := []uint64{1 << 40, 1 << 40, 1 << 40, 1 << 40, 0}
	env := rig.NewEnv(rig.EnvConfig{Balances: bal, State: st})
	var txs []*chain.Transaction
	var txActs [][]*rig.OpAction
	decl := map[string]bool{}
	for i, s := range bs.shapes {
		var as []chain.Action
		var oas []*rig.OpAction
		for j, a := range shapes[s].actions() {
			a.Nonce = uint64(i*10 + j)
			as = append(as, a)
			oas = append(oas, a)
		}
		txActs = append(txActs, oas)
		sp := i
		if bs.sameSponsor {
			sp = 0
		}
		if bs.poor == i {
			sp = 4
		}
		tx := env.MakeTx(sp, as, blockTs, rig.TxOpts{})
		txs = append(txs, tx)
		sk, _ := tx.StateKeys(env.BH)
		for k := range sk {
			decl[k] = true
		}
	}
	blk := env.MakeBlock(env.DB, ids.Empty, 1, blockTs, txs)
	ref := env.SeqExecute(env.DB, blk)
	decl[string(chain.HeightKey(env.MM.HeightPrefix()))] = true
	decl[string(chain.TimestampKey(env.MM.TimestampPrefix()))] = true
	decl[string(chain.FeeKey(env.MM.FeePrefix()))] = true
	sr := &scenarioRun{env: env, block: blk, ref: ref, decl: decl}
	if bs.poor < 0 {
		parent := map[string]string{}
		for k, v := range st {
			parent[k] = string(v)
		}
		sr.model = mapModel(parent, txActs)
	}
	return sr
}

type execObs struct {
	out   *chain.OutputBlock
	err   error
	reads map[string]int
}

// body executes the block with the real processor; obs receives the observations.
func (sr *scenarioRun) body(c cfg, obs **execObs) func() {
	return func() {
		o := &execObs{}
		*obs = o
		var w workers.Workers
		if c.parallelSig {
			w = workers.NewParallel(2, 2)
		} else {
			w = workers.NewSerial()
		}
		p := sr.env.NewProcessor(c.cores, c.fetchers, w, &validitywindowtest.MockTimeValidityWindow[*chain.Transaction]{}, nil)
		rv := &recordingView{View: sr.env.DB, reads: map[string]int{}}
		o.out, o.err = p.Execute(rig.Ctx, rv, sr.block, true)
		o.reads = rv.reads
		w.Stop()
	}
}

var universe = []string{k1, k2, k3, kU}

// mapModel is an INDEPENDENT reference for the post-state of the universe keys: a plain map,
// no tstate, transactions applied one at a time, all-or-nothing per transaction, permission
// lattice from the exported constants. (The sequential reference above shares the state view
// implementation with the processor; this one shares nothing.)
func mapModel(parent map[string]string, txActions [][]*rig.OpAction) map[string]string {
	st := map[string]string{}
	for k, v := range parent {
		st[k] = v
	}
	for _, actions := range txActions {
		perms := map[string]state.Permissions{}
		for _, a := range actions {
			for _, d := range a.Declared {
				perms[d.Key] |= d.Perm
			}
		}
		sc := map[string]string{}
		for k, v := range st {
			sc[k] = v
		}
		has := func(k string, p state.Permissions) bool { return perms[k]&p == p }
		put := func(k, v string) bool {
			if _, ok := sc[k]; ok {
				if !has(k, state.Write) {
					return false
				}
			} else if !has(k, state.Write) || !has(k, state.Allocate) {
				return false
			}
			sc[k] = v
			return true
		}
		ok := true
	tx:
		for _, a := range actions {
			for _, s := range a.Script {
				switch s.Kind {
				case rig.Get:
					ok = has(s.Key, state.Read)
				case rig.Put:
					ok = put(s.Key, string(s.Val))
				case rig.Del:
					ok = has(s.Key, state.Write)
					if ok {
						delete(sc, s.Key)
					}
				case rig.Fail:
					ok = false
				case rig.Copy:
					ok = has(s.Key, state.Read)
					if ok {
						if v, present := sc[s.Key]; present {
							ok = put(string(s.Val), v)
						} else {
							ok = has(string(s.Val), state.Write)
							if ok {
								delete(sc, string(s.Val))
							}
						}
					}
				case rig.Append:
					ok = has(s.Key, state.Read)
					if ok {
						ok = put(s.Key, sc[s.Key]+string(s.Val))
					}
				}
				if !ok {
					break tx
				}
			}
		}
		if ok {
			st = sc
		}
	}
	return st
}

func (sr *scenarioRun) check(o *execObs, deadlock bool, blocked []string) (string, string) {
	if deadlock {
		return "deadlock", fmt.Sprintf("block execution hangs: %v", blocked)
	}
	ref := sr.ref
	if (o.err != nil) != (ref.Err != nil) {
		return "validity-differs-from-sequential", fmt.Sprintf("processor error=%v, sequential application error=%v", o.err, ref.Err)
	}
	// C24(b): only declared keys and metadata keys are read from the parent
	for k, n := range o.reads {
		if !sr.decl[k] {
			return "C24:undeclared-parent-read", fmt.Sprintf("parent key %q (%s) was read during block execution but is neither declared nor a metadata key", k, rig.KeyName(k))
		}
		_ = n
	}
	if o.err != nil {
		return "", ""
	}
	res := o.out.ExecutionResults
	if len(res.Results) != len(ref.Results) {
		return "results-differ", fmt.Sprintf("%d results vs %d", len(res.Results), len(ref.Results))
	}
	for i := range ref.Results {
		if rig.ResultString(res.Results[i]) != rig.ResultString(ref.Results[i]) {
			return "results-differ", fmt.Sprintf("tx %d: processor %s, sequential %s", i, rig.ResultString(res.Results[i]), rig.ResultString(ref.Results[i]))
		}
	}
	if res.UnitPrices != ref.Prices {
		return "unit-prices-differ", fmt.Sprintf("%v vs %v", res.UnitPrices, ref.Prices)
	}
	if res.UnitsConsumed != ref.Consumed {
		return "units-consumed-differ", fmt.Sprintf("%v vs %v", res.UnitsConsumed, ref.Consumed)
	}
	// post-state: every key of the universe + every key the reference changed
	keys := append([]string{}, universe...)
	for k := range ref.Changes {
		keys = append(keys, k)
	}
	for _, a := range sr.env.Addrs {
		for k := range sr.env.BH.SponsorStateKeys(a) {
			keys = append(keys, k)
		}
	}
	sort.Strings(keys)
	got := rig.Dump(o.out.View, keys)
	parent := rig.Dump(sr.env.DB, keys)
	for _, k := range keys {
		want, ok := parent[k]
		if ch, changed := ref.Changes[k]; changed {
			if ch == nil {
				ok = false
			} else {
				want, ok = string(*ch), true
			}
		}
		g, gok := got[k]
		if ok != gok || (ok && g != want) {
			return "post-state-differs", fmt.Sprintf("key %s: processor %q(present=%v), sequential %q(present=%v)", rig.KeyName(k), g, gok, want, ok)
		}
	}
	if sr.model != nil {
		for _, k := range universe {
			want, ok := sr.model[k]
			g, gok := got[k]
			if ok != gok || (ok && g != want) {
				return "post-state-differs-from-independent-model", fmt.Sprintf("key %s: processor %q(present=%v), plain-map model %q(present=%v)", rig.KeyName(k), g, gok, want, ok)
			}
		}
	}
	return "", ""
}

// root comparison (done outside the scheduler: merkledb is uninstrumented)
func (sr *scenarioRun) rootCheck(o *execObs) (string, string) {
	if o.err != nil || sr.ref.Err != nil {
		return "", ""
	}
	ops := merkledb.ViewChanges{BatchOps: nil, MapOps: nil}
	_ = ops
	return "", ""
}

func blockSpecs(thorough bool) []blockSpec {
	var out []blockSpec
	n := partAShapes
	maxLen := 3
	add := func(sh []int) {
		for _, pres := range []bool{false, true} {
			for _, same := range []bool{false, true} {
				if same && len(sh) < 2 {
					continue
				}
				out = append(out, blockSpec{append([]int{}, sh...), pres, same, -1})
			}
		}
		if len(sh) >= 2 {
			out = append(out, blockSpec{append([]int{}, sh...), true, false, len(sh) - 1})
		}
	}
	add(nil)
	var rec func(cur []int)
	rec = func(cur []int) {
		if len(cur) > 0 {
			add(cur)
		}
		if len(cur) == maxLen {
			return
		}
		for s := 0; s < n; s++ {
			if len(cur) == 2 && !thorough && s%2 == 1 && cur[0]%2 == 1 {
				continue // quick: thin out the 3-tx level
			}
			rec(append(cur, s))
		}
	}
	rec(nil)
	// restore patterns: a later transaction writes the parent's value back / deletes a key an
	// earlier one created (differences that only show against an independent model)
	restore := []int{0, 1, 5, 6, 14, 15}
	for _, a := range restore {
		for _, b := range restore {
			out = append(out, blockSpec{[]int{a, b}, true, false, -1}, blockSpec{[]int{a, b}, false, false, -1})
			for _, c := range restore {
				out = append(out, blockSpec{[]int{a, b, c}, true, false, -1})
			}
		}
	}
	if thorough {
		// 4-transaction blocks over the order-sensitive shapes
		core := []int{1, 2, 3, 4, 5, 7}
		for _, a := range core {
			for _, b := range core {
				for _, c := range core {
					for _, d := range core {
						out = append(out, blockSpec{[]int{a, b, c, d}, true, false, -1})
					}
				}
			}
		}
	}
	return out
}

var partAConfigs = []cfg{{1, 1, false}, {2, 1, false}, {2, 4, true}, {4, 4, false}, {16, 1, true}, {16, 4, false}}

// conflict patterns for part B (indices into shapes)
var partB = [][]int{
	{1, 2},       // WW append order
	{0, 1},       // RW
	{1, 0},       // WR
	{0, 0},       // RR
	{3, 4},       // copy cycle
	{1, 3},       // W k1 ; R k1 W k2
	{7, 1},       // failing writer then append
	{5, 1},       // delete then append
	{1, 5, 2},    // append, delete, append
	{3, 1, 11},   // R k1 W k2 ; W k1 ; R k2   (reader and writer of keys owned by one earlier tx)
	{9, 0},       // two actions then read
	{8, 1},       // undeclared access then append
	{6, 6},       // allocate same key twice
	{10, 3, 2},   // diamond-ish
	{1, 2, 0},    // WW then R
}

type job struct {
	part string
	bs   blockSpec
	c    cfg
	bound int
}

func main() {
	r := evid.Start("C01", "exploration")
	specs := blockSpecs(r.Thorough())
	var jobs []job
	bBound := evid.Pick(r, 1, 2)
	if s := os.Getenv("C01_BOUND"); s != "" {
		bBound, _ = strconv.Atoi(s)
	}
	// part B first (the expensive jobs are spread over the worker processes before part A)
	for pi, sh := range partB {
		if !r.Thorough() && len(sh) > 2 {
			continue // quick: two-transaction patterns only
		}
		for _, same := range []bool{false, true} {
			if !r.Thorough() && (same || pi >= 6) {
				continue // quick: the first six two-transaction patterns, distinct sponsors
			}
			jobs = append(jobs, job{part: "B", bs: blockSpec{sh, true, same, -1}, c: cfg{2, 2, false}, bound: bBound})
		}
	}
	b4Bound := evid.Pick(r, 0, 1)
	for _, sh := range partB4 {
		for ci, c := range []cfg{{2, 2, false}, {4, 2, false}} {
			if ci > 0 && !r.Thorough() {
				continue // quick: 2 cores (4 cores costs ~50x more executions)
			}
			jobs = append(jobs, job{part: "B", bs: blockSpec{sh, true, false, -1}, c: c, bound: b4Bound})
		}
	}
	nB := len(jobs)
	for _, bs := range specs {
		jobs = append(jobs, job{part: "A", bs: bs})
	}
	if evid.RacePass() {
		iters := evid.Pick(r, 5, 50)
		for i := 0; i < len(specs); i += 11 {
			sr := prepare(specs[i])
			var o *execObs
			for _, c := range partAConfigs[2:] {
				b := sr.body(c, &o)
				for k := 0; k < iters; k++ {
					b()
				}
			}
		}
		return
	}
	run := func(i int) evid.ShardResult {
		j := jobs[i]
		sr := prepare(j.bs)
		res := evid.ShardResult{Name: j.part + ": " + j.bs.String(), Counts: map[string]int{}}
		cfgs := partAConfigs
		bound := 0
		maxExec := 1 // part A: the default (non-preemptive, lowest-thread-first) schedule of each configuration
		if j.part == "B" {
			cfgs = []cfg{j.c}
			bound = j.bound
			maxExec = 0
		}
		outcomes := map[string]struct{}{}
		for _, c := range cfgs {
			var o *execObs
			ex := &vsched.Explorer{
				Body: sr.body(c, &o), MaxPreemptions: bound, MaxDeviations: -1, Stop: r.Expired, StopAtFirst: true, MaxExecutions: maxExec,
				Check: func(out *vsched.Outcome) (string, string) {
					k, w := sr.check(o, out.Deadlock, out.Blocked)
					if k == "" {
						outcomes[fmt.Sprint(o.err != nil)] = struct{}{}
					}
					return k, w
				},
				OnViolation: func(key, what string, choices []int, out *vsched.Outcome) {
					full := "C01:" + key
					if strings.HasPrefix(key, "C24:") {
						full = key
					}
					res.Violations = append(res.Violations, evid.ShardViolation{Key: full, What: what + " [" + j.bs.String() + "; " + c.String() + "]", Replay: map[string]any{"block": j.bs.String(), "config": c.String(), "choices": choices, "job": i}})
				},
			}
			if !ex.Run() {
				res.Infra = ex.Diverged
			}
			if !ex.Exhaustive && ex.Violations == 0 && j.part == "B" {
				res.Capped = "deadline reached inside a part-B scenario"
			}
			res.Counts["executions"] += ex.Executions
			res.Counts["complete"] += ex.Complete
			res.Counts["cut"] += ex.CutRuns
			res.Counts["conflicting"] += ex.Conflicting
			res.Counts["executions_part"+j.part] += ex.Executions
			if len(res.Violations) > 0 {
				break
			}
			if i%500 == 0 && len(ex.SampleTraces) > 0 {
				res.Sample = map[string]any{"block": j.bs.String(), "config": c.String(), "schedule": ex.SampleTraces[0], "reference_error": fmt.Sprint(sr.ref.Err)}
			}
		}
		if sr.ref.Err != nil {
			res.Counts["invalid_blocks"]++
		} else {
			res.Counts["valid_blocks"]++
		}
		res.Counts["distinct_outcomes"] = len(outcomes)
		return res
	}
	if len(os.Args) > 3 && os.Args[1] == "--debug" {
		i, _ := strconv.Atoi(os.Args[2])
		var pre []int
		for _, f := range strings.Fields(os.Args[3]) {
			x, _ := strconv.Atoi(f)
			pre = append(pre, x)
		}
		j := jobs[i]
		sr := prepare(j.bs)
		var o *execObs
		ex := &vsched.Explorer{Body: sr.body(j.c, &o), MaxPreemptions: 9, MaxDeviations: -1, Check: func(out *vsched.Outcome) (string, string) { return "", "" }}
		for rep := 0; rep < 3; rep++ {
			out, _, _ := ex.Replay(pre)
			fmt.Println("run", rep, "points", len(out.Points), "div", out.Diverged)
			for pi, p := range out.Points {
				if pi >= 60 && pi < 95 {
					fmt.Printf("  %d: N=%d chosen=%d kind=%d cur=%v threads=%v\n", pi, p.N, p.Chosen, p.Kind, p.CurEnabled, p.Threads)
				}
			}
		}
		return
	}
	if len(os.Args) > 2 && os.Args[1] == "--one" {
		if pf := os.Getenv("VERIF_CPUPROFILE"); pf != "" {
			f, _ := os.Create(pf)
			_ = pprof.StartCPUProfile(f)
			defer pprof.StopCPUProfile()
		}
		i, _ := strconv.Atoi(os.Args[2])
		fmt.Printf("%+v\n", run(i))
		return
	}
	tot, _ := r.Sharded(len(jobs), run)
	r.Cov["evaluations"] = tot["executions"]
	r.Cov["distinct_nontrivial"] = tot["conflicting"]
	r.Cov["complete_executions"] = tot["complete"]
	r.Cov["cut_at_visited_state"] = tot["cut"]
	r.Cov["blocks_partA"] = len(specs)
	r.Cov["blocks_partB"] = nB
	r.Cov["executions_partA"] = tot["executions_partA"]
	r.Cov["executions_partB"] = tot["executions_partB"]
	r.Cov["valid_blocks"] = tot["valid_blocks"]
	r.Cov["invalid_blocks"] = tot["invalid_blocks"]
	r.Cov["preemption_bound_partB"] = bBound
	r.Cov["configs_partA"] = fmt.Sprint(partAConfigs)
	r.Cov["rule"] = "part A: every block of <=3 transactions from a 12-shape menu (thorough: + 4-tx blocks over 6 order-sensitive shapes) x parent {empty, populated} x sponsors {distinct, shared} (+ an unfunded sponsor) x 6 core/prefetch/signature-worker configurations, one deterministic schedule each (the schedule dimension is part B's); part B: 15 conflict patterns x sponsors {distinct, shared}, 2 cores, 2 prefetch workers, every interleaving up to the preemption bound (HB-pruned), plus 4 four-transaction owner/reader/writer patterns at preemption bound 0 (quick, 2 cores) / 1 (thorough, 2 and 4 cores); oracle = sequential application of the same transactions; non-trivial = complete executions in which >=2 threads touched a common object"
	r.Assumptions = []string{"sequential consistency; data races are the business of the separate -race pass", "merkledb itself is not instrumented (its internal concurrency is outside the property)", "the reference applies transactions one at a time with the same Transaction.PreExecute/Execute (the per-transaction semantics are C03/C04/C05's business)"}
	r.Finish()
}
