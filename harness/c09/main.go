// C09: a transaction is never included twice on one chain.
//
// Explicit-state search over block-tree histories on the real TimeValidityWindow (+ emap):
// events verify(parent, dt, tx list) for crafted blocks (in-block and ancestor duplicates),
// build(parent, dt, candidates) using IsRepeat like the builder, consensus-accept (siblings
// and their descendants are rejected), process (= window.Accept, lagging up to 2 blocks
// behind consensus as with the asynchronous accept queue), restart (fresh window populated
// from the chain index at the last processed block). Oracle (independent of the window): a
// block is admitted only if every transaction is inside its validity interval, no id repeats
// inside the block, and no id occurs in ANY ancestor on its path to genesis.
package main

import (
	"context"
	"crypto/sha256"
	"encoding/binary"
	"errors"
	"fmt"
	"os"
	"sort"
	"strings"

	"github.com/ava-labs/avalanchego/ids"
	"github.com/ava-labs/avalanchego/trace"
	"github.com/ava-labs/avalanchego/utils/logging"

	vw "github.com/ava-labs/hypersdk/internal/validitywindow"
	"github.com/ava-labs/hypersdk/internal/vshim/evid"
	"github.com/ava-labs/hypersdk/internal/vshim/seqx"
	"github.com/ava-labs/hypersdk/internal/vshim/vsched"
)

const (
	window  = 3000
	divisor = 1000
)

type htx struct {
	id  ids.ID
	exp int64
	n   int
}

func (t *htx) GetID() ids.ID    { return t.id }
func (t *htx) GetExpiry() int64 { return t.exp }

var txUniverse = []*htx{mk(0, 2000), mk(1, 4000), mk(2, 6000)}

func mk(n int, exp int64) *htx {
	return &htx{id: ids.ID(sha256.Sum256([]byte{byte(n), 0x77})), exp: exp, n: n}
}

type hblock struct {
	id, parent ids.ID
	ts         int64
	height     uint64
	txs        []*htx
	num        int // creation index
	par        int // creation index of the parent (-1 genesis)
	status     int
}

const (
	stProcessing = iota
	stAccepted   // consensus-accepted, not yet processed by the window
	stProcessed
	stRejected
)

func (b *hblock) GetID() ids.ID          { return b.id }
func (b *hblock) GetParent() ids.ID      { return b.parent }
func (b *hblock) GetTimestamp() int64    { return b.ts }
func (b *hblock) GetHeight() uint64      { return b.height }
func (b *hblock) GetBytes() []byte       { return b.id[:] }
func (b *hblock) GetContainers() []*htx  { return b.txs }
func (b *hblock) String() string         { return fmt.Sprintf("b%d", b.num) }
func (b *hblock) Contains(id ids.ID) bool {
	for _, t := range b.txs {
		if t.id == id {
			return true
		}
	}
	return false
}

type index struct{ m map[ids.ID]*hblock }

func (i *index) GetExecutionBlock(_ context.Context, id ids.ID) (vw.ExecutionBlock[*htx], error) {
	if b, ok := i.m[id]; ok {
		return b, nil
	}
	return nil, errors.New("not found")
}

func newBlock(parent *hblock, ts int64, txs []*htx, num int) *hblock {
	h := sha256.New()
	h.Write(parent.id[:])
	_ = binary.Write(h, binary.BigEndian, ts)
	for _, t := range txs {
		h.Write(t.id[:])
	}
	var id ids.ID
	copy(id[:], h.Sum(nil))
	return &hblock{id: id, parent: parent.id, ts: ts, height: parent.height + 1, txs: txs, num: num, par: parent.num}
}

// ---- op encoding
var deltas = []int64{0, 1000, 2000, 4000}

var verifyLists = [][]int{{}, {0}, {1}, {2}, {0, 1}, {0, 2}, {1, 2}, {0, 0}, {1, 1}, {2, 2}, {0, 1, 0}}
var buildLists = [][]int{{0}, {1}, {2}, {0, 1}, {0, 2}, {1, 2}, {0, 1, 2}}

const (
	kVerify = iota
	kBuild
	kAccept
	kProcess
	kRestart
	kAcceptProcess // consensus-accept immediately followed by processing (no lag)
)

type op struct{ kind, p, d, l int }

func enc(o op) int { return ((o.kind*16+o.p)*8+o.d)*16 + o.l }
func dec(x int) op {
	return op{kind: x / (16 * 8 * 16), p: (x / (8 * 16)) % 16, d: (x / 16) % 8, l: x % 16}
}

func (o op) String() string {
	names := func(l []int) string {
		s := []string{}
		for _, i := range l {
			s = append(s, fmt.Sprintf("T%d", i))
		}
		return "[" + strings.Join(s, ",") + "]"
	}
	switch o.kind {
	case kVerify:
		return fmt.Sprintf("verify(parent=b%d, dt=%d, txs=%s)", o.p, deltas[o.d], names(verifyLists[o.l]))
	case kBuild:
		return fmt.Sprintf("build(parent=b%d, dt=%d, mempool=%s)", o.p, deltas[o.d], names(buildLists[o.l]))
	case kAccept:
		return fmt.Sprintf("consensus-accept(b%d)", o.p)
	case kProcess:
		return "process-next-accepted"
	case kAcceptProcess:
		return fmt.Sprintf("consensus-accept-and-process(b%d)", o.p)
	}
	return "restart"
}

func hist(h []int) []string {
	var out []string
	for _, x := range h {
		out = append(out, dec(x).String())
	}
	return out
}

var maxBlocks = 4
var maxLag = 2

func getWindow(int64) int64 { return window }

func exec(h []int) seqx.Result {
	ctx := context.Background()
	genesis := &hblock{id: ids.ID{0xff}, ts: 0, height: 0, num: 0, par: -1, status: stProcessed}
	idx := &index{m: map[ids.ID]*hblock{genesis.id: genesis}}
	blocks := []*hblock{genesis}
	w, err := vw.NewTimeValidityWindow[*htx](ctx, logging.NoLog{}, trace.Noop, idx, genesis, getWindow)
	if err != nil {
		evid.Infra("window: %v", err)
	}
	lastAccepted := genesis  // consensus
	lastProcessed := genesis // window
	viol := func(k, what string) seqx.Result {
		return seqx.Result{Violation: &seqx.Violation{Key: "C09:" + k, What: what}}
	}
	onPath := func(b *hblock, id ids.ID) *hblock { // any ancestor (inclusive) containing id
		for x := b; x != nil; {
			if x.Contains(id) {
				return x
			}
			if x.par < 0 {
				return nil
			}
			x = blocks[x.par]
		}
		return nil
	}
	outcome := ""
	for step, x := range h {
		o := dec(x)
		switch o.kind {
		case kVerify, kBuild:
			parent := blocks[o.p]
			ts := parent.ts + deltas[o.d]
			var txs []*htx
			if o.kind == kBuild {
				var cand []*htx
				for _, i := range buildLists[o.l] {
					cand = append(cand, txUniverse[i])
				}
				// the builder's filter: timestamp validity (PreExecute) and IsRepeat
				dup, err := w.IsRepeat(ctx, parent, ts, cand)
				if err != nil {
					return viol("isrepeat-error", fmt.Sprintf("step %d %s: %v", step, o, err))
				}
				for i, t := range cand {
					if dup.Contains(i) {
						continue
					}
					if vw.VerifyTimestamp(t.exp, ts, divisor, window) != nil {
						continue
					}
					txs = append(txs, t)
				}
				// builder oracle: nothing it kept may already be on the parent's path
				for _, t := range txs {
					if a := onPath(parent, t.id); a != nil {
						return viol("builder-includes-repeat", fmt.Sprintf("step %d %s: the builder filter (IsRepeat) let T%d through although ancestor b%d (ts %d, block ts %d) already contains it", step, o, t.n, a.num, a.ts, ts))
					}
				}
			} else {
				for _, i := range verifyLists[o.l] {
					txs = append(txs, txUniverse[i])
				}
			}
			b := newBlock(parent, ts, txs, len(blocks))
			if old, ok := idx.m[b.id]; ok { // identical block already known: nothing new
				_ = old
				outcome = "known-block"
				continue
			}
			// real verification: replay protection + per-transaction timestamp check
			// (the order Processor.Execute applies them)
			blocks = append(blocks, b) // visible to the index while verifying (as in the VM)
			idx.m[b.id] = b
			verr := w.VerifyExpiryReplayProtection(ctx, b)
			if verr == nil {
				for _, t := range txs {
					if e := vw.VerifyTimestamp(t.exp, ts, divisor, window); e != nil {
						verr = e
						break
					}
				}
			}
			// oracle
			want := ""
			seen := map[ids.ID]bool{}
			for _, t := range txs {
				if seen[t.id] {
					want = fmt.Sprintf("T%d twice in the block", t.n)
					break
				}
				seen[t.id] = true
				if a := onPath(parent, t.id); a != nil {
					want = fmt.Sprintf("T%d already in ancestor b%d (ts %d)", t.n, a.num, a.ts)
					break
				}
			}
			if verr == nil && want != "" {
				return viol("repeat-admitted", fmt.Sprintf("step %d %s (block ts %d): verification passed although %s", step, o, ts, want))
			}
			if verr != nil {
				// rejected blocks are dropped
				blocks = blocks[:len(blocks)-1]
				delete(idx.m, b.id)
				if want == "" && o.kind == kBuild {
					return viol("built-block-rejected", fmt.Sprintf("step %d %s: a block produced through the builder filter fails verification: %v", step, o, verr))
				}
				if want == "" {
					tsOK := true
					for _, t := range txs {
						if vw.VerifyTimestamp(t.exp, ts, divisor, window) != nil {
							tsOK = false
						}
					}
					if tsOK {
						outcome = "UNEXPECTED-REJECTION"
					} else {
						outcome = "rejected-timestamp"
					}
				} else {
					outcome = "rejected-repeat"
				}
			} else {
				outcome = fmt.Sprintf("admitted-%dtx", len(txs))
			}
		case kAccept, kAcceptProcess:
			b := blocks[o.p]
			b.status = stAccepted
			lastAccepted = b
			// reject every other processing block that does not descend from b
			for _, c := range blocks {
				if c.status != stProcessing {
					continue
				}
				desc := false
				for x := c; x.par >= 0; x = blocks[x.par] {
					if x.par == b.num {
						desc = true
						break
					}
				}
				if !desc {
					c.status = stRejected
					delete(idx.m, c.id)
				}
			}
			outcome = "accept"
			if o.kind == kAcceptProcess {
				w.Accept(b)
				b.status = stProcessed
				lastProcessed = b
				outcome = "accept+process"
			}
		case kProcess:
			// next consensus-accepted block above lastProcessed
			var next *hblock
			for _, c := range blocks {
				if c.status == stAccepted && c.par == lastProcessed.num {
					next = c
				}
			}
			if next == nil {
				evid.Infra("process without pending block")
			}
			w.Accept(next)
			next.status = stProcessed
			lastProcessed = next
			outcome = "process"
		case kRestart:
			// processing (undecided) blocks are lost; accepted blocks stay in the index
			for _, c := range blocks {
				if c.status == stProcessing {
					c.status = stRejected
					delete(idx.m, c.id)
				}
			}
			w, err = vw.NewTimeValidityWindow[*htx](ctx, logging.NoLog{}, trace.Noop, idx, lastProcessed, getWindow)
			if err != nil {
				return viol("restart-error", err.Error())
			}
			outcome = "restart"
		}
	}
	// ---- enabled ops
	var en []int
	nLive := 0
	for _, c := range blocks {
		if c.status != stRejected {
			nLive++
		}
	}
	lag := 0
	for _, c := range blocks {
		if c.status == stAccepted {
			lag++
		}
	}
	for _, c := range blocks {
		isParent := c == lastAccepted || c.status == stProcessing
		if c.status == stProcessing {
			// must descend from lastAccepted (guaranteed: others were rejected)
		}
		if isParent && len(blocks) <= maxBlocks {
			for d := range deltas {
				for l := range verifyLists {
					en = append(en, enc(op{kVerify, c.num, d, l}))
				}
				for l := range buildLists {
					en = append(en, enc(op{kBuild, c.num, d, l}))
				}
			}
		}
		if c.status == stProcessing && c.par == lastAccepted.num && lag < maxLag {
			en = append(en, enc(op{kind: kAccept, p: c.num}))
		}
		if c.status == stProcessing && c.par == lastAccepted.num && lag == 0 {
			en = append(en, enc(op{kind: kAcceptProcess, p: c.num}))
		}
	}
	if lag > 0 {
		en = append(en, enc(op{kind: kProcess}))
	}
	if len(h) > 0 && dec(h[len(h)-1]).kind != kRestart {
		en = append(en, enc(op{kind: kRestart}))
	}
	// ---- canonical key: live block tree (by content id) with statuses + window private state
	var ks []string
	for _, c := range blocks {
		if c.status == stRejected {
			continue
		}
		ks = append(ks, fmt.Sprintf("%x<%x@%d:%d", c.id[:4], c.parent[:4], c.ts, c.status))
	}
	sort.Strings(ks)
	// block numbering matters for op encoding: include the creation order of live blocks
	var order []string
	for _, c := range blocks {
		if c.status != stRejected {
			order = append(order, fmt.Sprintf("%d=%x", c.num, c.id[:3]))
		}
	}
	return seqx.Result{Key: strings.Join(ks, ";") + "|" + strings.Join(order, ",") + "|" + fmt.Sprint(len(blocks)) + "|" + w.VerifDump(), Enabled: en, Outcome: outcome}
}

// ---------------------------------------------------------------- part B: schedules
//
// The window's Accept runs on the asynchronous accepted-queue thread while the engine thread
// verifies and builds on top of the same blocks. Each scenario: thread A accepts the listed
// blocks in order, the main thread concurrently verifies a child that repeats a transaction
// of an ancestor and asks the builder filter about it; every interleaving (instrumented
// validitywindow + emap under the controlled scheduler) must reject / mark the repeat.
type schedScenario struct {
	name   string
	chain  [][]int // tx indices of b1, b2, ... (each child of the previous, 1 s apart)
	accept int     // thread A accepts b1..b<accept>
	child  []int   // the crafted child of the tip
	dt     int64
}

var schedScenarios = []schedScenario{
	{"accept(b1[T1]) || verify(b2[T1])", [][]int{{1}}, 1, []int{1}, 1000},
	{"accept(b1[T1]) || verify(b2[T2,T1])", [][]int{{1}}, 1, []int{2, 1}, 1000},
	{"accept(b1[T1]);accept(b2[T2]) || verify(b3[T1])", [][]int{{1}, {2}}, 2, []int{1}, 1000},
	{"accept(b1[T1]);accept(b2[T2]) || verify(b3[T2])", [][]int{{1}, {2}}, 2, []int{2}, 0},
	{"accept(b1[T0]);accept(b2[]) || verify(b3[T0]) at the expiry", [][]int{{0}, {}}, 2, []int{0}, 0},
	{"accept(b1[T1]) of 2 processing || verify(b3[T1])", [][]int{{1}, {2}}, 1, []int{1}, 1000},
}

type schedObs struct {
	verifyErr error
	dup       bool
	isRepErr  error
}

func schedBody(sc schedScenario, o **schedObs) func() {
	return func() {
		ob := &schedObs{}
		*o = ob
		ctx := context.Background()
		genesis := &hblock{id: ids.ID{0xff}, ts: 0, height: 0, num: 0, par: -1, status: stProcessed}
		idx := &index{m: map[ids.ID]*hblock{genesis.id: genesis}}
		w, err := vw.NewTimeValidityWindow[*htx](ctx, logging.NoLog{}, trace.Noop, idx, genesis, getWindow)
		if err != nil {
			panic(err)
		}
		tip := genesis
		var blocks []*hblock
		for i, l := range sc.chain {
			var txs []*htx
			for _, t := range l {
				txs = append(txs, txUniverse[t])
			}
			b := newBlock(tip, tip.ts+1000, txs, i+1)
			idx.m[b.id] = b
			blocks = append(blocks, b)
			tip = b
		}
		vsched.Go(func() {
			for i := 0; i < sc.accept; i++ {
				w.Accept(blocks[i])
			}
		})
		var txs []*htx
		for _, t := range sc.child {
			txs = append(txs, txUniverse[t])
		}
		child := newBlock(tip, tip.ts+sc.dt, txs, len(blocks)+1)
		idx.m[child.id] = child
		ob.verifyErr = w.VerifyExpiryReplayProtection(ctx, child)
		dup, err := w.IsRepeat(ctx, tip, child.ts, txs)
		ob.isRepErr = err
		ob.dup = dup.Len() > 0
	}
}

func runSchedules(r *evid.Run) {
	execs, conflicting := 0, 0
	for si, sc := range schedScenarios {
		var o *schedObs
		sc := sc
		ex := &vsched.Explorer{Body: schedBody(sc, &o), MaxPreemptions: -1, MaxDeviations: -1, Stop: r.Expired,
			Check: func(out *vsched.Outcome) (string, string) {
				if out.Deadlock {
					return "deadlock", fmt.Sprintf("%v", out.Blocked)
				}
				if o.verifyErr == nil {
					return "repeat-admitted-under-concurrent-accept", "a child repeating a transaction of an ancestor passed verification while the ancestor was being accepted concurrently"
				}
				if o.isRepErr != nil || !o.dup {
					return "builder-misses-repeat-under-concurrent-accept", fmt.Sprintf("IsRepeat did not mark a transaction of an ancestor while the ancestor was being accepted concurrently (err %v)", o.isRepErr)
				}
				return "", ""
			},
			OnViolation: func(key, what string, choices []int, out *vsched.Outcome) {
				r.Violation("C09:"+key, what+" ["+sc.name+"]", map[string]any{"scenario": si, "name": sc.name, "choices": choices})
			}, StopAtFirst: true}
		if !ex.Run() {
			evid.Infra("schedule exploration diverged: %s", ex.Diverged)
		}
		if !ex.Exhaustive && ex.Violations == 0 {
			r.Cap("deadline reached inside a schedule scenario")
		}
		execs += ex.Executions
		conflicting += ex.Conflicting
	}
	r.Cov["schedule_scenarios"] = len(schedScenarios)
	r.Cov["schedule_executions"] = execs
	r.Cov["schedule_executions_with_shared_objects"] = conflicting
}

func main() {
	r := evid.Start("C09", "model_checking")
	if evid.RacePass() {
		for _, sc := range schedScenarios {
			var o *schedObs
			b := schedBody(sc, &o)
			for i := 0; i < evid.Pick(r, 300, 3000); i++ {
				b()
			}
		}
		return
	}
	if p := evid.ReplayPayload(); p != nil {
		var h []int
		for _, x := range p["ops"].([]any) {
			h = append(h, int(x.(float64)))
		}
		res := exec(h)
		fmt.Println("replay", hist(h))
		if res.Violation != nil {
			fmt.Println("  violation:", res.Violation.Key, res.Violation.What)
			os.Exit(1)
		}
		fmt.Println("  held")
		os.Exit(0)
	}
	depth := evid.Pick(r, 6, 8)
	maxBlocks = evid.Pick(r, 3, 4)
	s := &seqx.Search{Exec: exec, MaxDepth: depth, Stop: r.Expired,
		OnViolation: func(h []int, v *seqx.Violation) {
			r.Violation(v.Key, v.What, map[string]any{"history": hist(h), "ops": h})
		}}
	runSchedules(r)
	st := s.Run()
	if !st.Complete {
		r.Cap("deadline reached before the depth bound")
	}
	for _, h := range st.Samples {
		r.Sample(hist(h))
	}
	r.Cov["states"] = st.States
	r.Cov["transitions"] = st.Transitions
	r.Cov["traces_validated_against_impl"] = st.Transitions
	r.Cov["max_depth"] = st.MaxDepth
	r.Cov["distinct_outcomes"] = len(st.Outcomes)
	r.Cov["outcomes"] = st.Outcomes
	r.Cov["frontier_unexpanded_at_bound"] = st.Frontier
	r.Cov["bounds"] = map[string]any{"depth": depth, "max_new_blocks": maxBlocks, "txs": 3, "window_ms": window, "deltas_ms": deltas, "max_accept_lag": maxLag}
	r.Cov["explanation"] = "every transition runs the real TimeValidityWindow (fresh instance, history replayed) over a harness chain index; verification = VerifyExpiryReplayProtection + VerifyTimestamp per transaction (the order of Processor.Execute); the builder path filters with IsRepeat + VerifyTimestamp; state key = live block tree + statuses + private window state"
	r.Assumptions = []string{"constant validity window (3 s), transaction expiries 2 s / 4 s / 6 s, block gaps {0,1,2,4} s", "consensus only verifies children of non-rejected blocks and accepts in height order; the window lags consensus by at most 2 blocks", "the chain index serves every non-rejected block (pruned indexes / backfill are C22's)", "an unexpected rejection of a repeat-free block is counted (outcome UNEXPECTED-REJECTION) but is not a C09 violation unless the block came from the builder filter"}
	r.Finish()
}
