// C03: transactions are atomic and always pay their fee.
// Exhaustive enumeration of transactions (1..3 actions, scripted get/put/del/append/fail
// steps over 2 keys, undeclared access) x base state x sponsor balance x unit prices x
// balance handler, through the real Transaction.PreExecute/Execute on a TStateView, against
// an independent plain-map reference with big-integer fee arithmetic.
package main

import (
	"context"
	"errors"
	"fmt"
	"math/big"
	"runtime"
	"sync"
	"sync/atomic"

	"github.com/ava-labs/avalanchego/database"

	"github.com/ava-labs/hypersdk/chain"
	mstorage "github.com/ava-labs/hypersdk/examples/morpheusvm/storage"
	"github.com/ava-labs/hypersdk/fees"
	ifees "github.com/ava-labs/hypersdk/internal/fees"
	"github.com/ava-labs/hypersdk/internal/vshim/evid"
	"github.com/ava-labs/hypersdk/keys"
	"github.com/ava-labs/hypersdk/state"
	"github.com/ava-labs/hypersdk/state/tstate"
	"github.com/ava-labs/hypersdk/verifh/rig"
)

var (
	k1 = rig.Key("k1", 1)
	k2 = rig.Key("k2", 1)
	kU = rig.Key("kU", 1)
)

var stepMenu = []rig.Step{
	{Kind: rig.Get, Key: k1},
	{Kind: rig.Put, Key: k1, Val: []byte("a")},
	{Kind: rig.Put, Key: k2, Val: []byte("b")},
	{Kind: rig.Del, Key: k1},
	{Kind: rig.Del, Key: k2},
	{Kind: rig.Append, Key: k1, Val: []byte("x")},
	{Kind: rig.Fail},
	{Kind: rig.Put, Key: kU, Val: []byte("u")}, // undeclared key
}

const blockTs = 1000

type txSpec struct {
	scripts [][]int // per action: step indices
}

func (t txSpec) actions() []chain.Action {
	var as []chain.Action
	for i, sc := range t.scripts {
		a := &rig.OpAction{Compute: uint64(1 + i), Start: -1, End: -1, Nonce: uint64(i),
			Declared: []rig.KeyPerm{{Key: k1, Perm: state.All}, {Key: k2, Perm: state.All}}}
		for _, s := range sc {
			a.Script = append(a.Script, stepMenu[s])
		}
		as = append(as, a)
	}
	return as
}

func (t txSpec) String() string {
	s := ""
	for _, a := range t.actions() {
		s += a.(*rig.OpAction).String()
	}
	return s
}

// reference execution on a plain map. Returns success, outputs, post-state of k1,k2,kU.
func refRun(t txSpec, base map[string]string) (bool, []string, map[string]string) {
	st := map[string]string{}
	for k, v := range base {
		st[k] = v
	}
	var outs []string
	cur := st
	for _, sc := range t.scripts {
		out := ""
		for _, si := range sc {
			s := stepMenu[si]
			switch s.Kind {
			case rig.Get:
				if v, ok := cur[s.Key]; ok {
					out += v
				} else {
					out += "-"
				}
			case rig.Put:
				if s.Key == kU {
					return false, outs, base
				}
				cur[s.Key] = string(s.Val)
			case rig.Del:
				delete(cur, s.Key)
			case rig.Append:
				cur[s.Key] = cur[s.Key] + string(s.Val)
			case rig.Fail:
				return false, outs, base
			}
		}
		outs = append(outs, out)
	}
	return true, outs, cur
}

type memStore map[string][]byte

func main() {
	r := evid.Start("C03", "exploration")
	// transactions
	var scripts [][]int
	scripts = append(scripts, nil)
	for a := range stepMenu {
		scripts = append(scripts, []int{a})
	}
	oneStep := len(scripts)
	for a := range stepMenu {
		for b := range stepMenu {
			scripts = append(scripts, []int{a, b})
		}
	}
	var txs []txSpec
	for _, a := range scripts {
		txs = append(txs, txSpec{[][]int{a}})
	}
	for _, a := range scripts {
		for _, b := range scripts {
			if !r.Thorough() && len(a) == 2 && len(b) == 2 && (a[0]+b[1])%3 != 0 {
				continue // quick: thin the 2x2-step level
			}
			txs = append(txs, txSpec{[][]int{a, b}})
		}
	}
	for _, a := range scripts[:oneStep] {
		for _, b := range scripts[:oneStep] {
			for _, c := range scripts[:oneStep] {
				txs = append(txs, txSpec{[][]int{a, b, c}})
				if r.Thorough() {
					for _, d := range scripts[:oneStep] {
						txs = append(txs, txSpec{[][]int{a, b, c, d}})
					}
				}
			}
		}
	}
	prices := []uint64{0, 1, 100}
	var evals, nontriv atomic.Int64
	outcomes := sync.Map{}
	ch := make(chan int, len(txs))
	for i := range txs {
		ch <- i
	}
	close(ch)
	var wg sync.WaitGroup
	for w := 0; w < runtime.NumCPU(); w++ {
		wg.Add(1)
		go func() {
			defer wg.Done()
			for ti := range ch {
				if r.Expired() {
					r.Cap("deadline")
					continue
				}
				t := txs[ti]
				for _, present := range []bool{false, true} {
					for prior := range priorMenu {
						for _, price := range prices {
							for hi, mkBH := range []func() chain.BalanceHandler{nil, func() chain.BalanceHandler { return &mstorage.BalanceHandler{} }} {
								for bi := 0; bi < 4; bi++ { // balance: fee-1, fee, fee+1, large
									runCase(r, t, present, prior, price, hi, mkBH, bi, &evals, &nontriv, &outcomes)
								}
							}
						}
					}
				}
				if ti%2000 == 0 {
					r.Sample(map[string]any{"tx": t.String()})
				}
			}
		}()
	}
	wg.Wait()
	no := 0
	outcomes.Range(func(_, _ any) bool { no++; return true })
	r.Cov["evaluations"] = int(evals.Load())
	r.Cov["distinct_nontrivial"] = int(nontriv.Load())
	r.Cov["distinct_outcomes"] = no
	r.Cov["transactions"] = len(txs)
	r.Cov["not_includable_cases"] = int(notIncludable.Load())
	r.Cov["rule"] = "every transaction of 1-2 actions with scripts of 0-2 steps (8-step menu: get/put/del/append/fail/undeclared put over 2 keys) and of 3 (thorough 4) actions with 0-1 step, x block-start state {empty, populated} x changes already committed by an earlier transaction of the block {none, both keys deleted, both written (k1 to the value Put writes), k1 rewritten + k2 deleted} x unit price {0,1,100} x balance handler {prefix, MorpheusVM delete-at-zero} x sponsor balance {fee-1, fee, fee+1, large}; non-trivial = transactions with at least one state-changing step that were executed (not rejected for balance)"
	r.Assumptions = []string{"keys are declared with all permissions (permission lattice is C05)", "the expected fee is recomputed from rules and declared keys in math/big"}
	r.Finish()
}

func expectedUnits(e *rig.Env, tx *chain.Transaction, nActions int, declared int) (fees.Dimensions, *big.Int, bool) {
	r := e.Rules
	compute := new(big.Int).SetUint64(r.BaseComputeUnits)
	for i := 0; i < nActions; i++ {
		compute.Add(compute, big.NewInt(int64(1+i)))
	}
	compute.Add(compute, big.NewInt(1)) // auth
	reads, allocs, writes := new(big.Int), new(big.Int), new(big.Int)
	sk, _ := tx.StateKeys(e.BH)
	for k := range sk {
		mc, _ := keys.MaxChunks([]byte(k))
		c := new(big.Int).SetUint64(uint64(mc))
		reads.Add(reads, new(big.Int).SetUint64(r.StorageKeyReadUnits)).Add(reads, new(big.Int).Mul(c, new(big.Int).SetUint64(r.StorageValueReadUnits)))
		allocs.Add(allocs, new(big.Int).SetUint64(r.StorageKeyAllocateUnits)).Add(allocs, new(big.Int).Mul(c, new(big.Int).SetUint64(r.StorageValueAllocateUnits)))
		writes.Add(writes, new(big.Int).SetUint64(r.StorageKeyWriteUnits)).Add(writes, new(big.Int).Mul(c, new(big.Int).SetUint64(r.StorageValueWriteUnits)))
	}
	d := fees.Dimensions{uint64(tx.Size()), compute.Uint64(), reads.Uint64(), allocs.Uint64(), writes.Uint64()}
	return d, nil, true
}

var notIncludable atomic.Int64

// priorMenu: what an earlier transaction of the same block already committed to the block-level
// state (nil value = deleted). Applied on top of the block-start storage.
var priorMenu = []map[string][]byte{
	nil,
	{k1: nil, k2: nil},
	{k1: []byte("a"), k2: []byte("b")},
	{k1: []byte("z"), k2: nil},
}

func runCase(r *evid.Run, t txSpec, present bool, prior int, price uint64, hi int, mkBH func() chain.BalanceHandler, bi int, evals, nontriv *atomic.Int64, outcomes *sync.Map) {
	rules := rig.DefaultRules()
	rules.MinUnitPrice = fees.Dimensions{price, price, price, price, price}
	var bh chain.BalanceHandler
	if mkBH != nil {
		bh = mkBH()
	}
	// first pass with a large balance to learn the fee, then set the balance relative to it
	probe := rig.NewEnvLite(rules, bh)
	tx := probe.MakeTx(0, t.actions(), blockTs, rig.TxOpts{})
	units, _, _ := expectedUnits(probe, tx, len(t.scripts), 0)
	feeBig := new(big.Int)
	for d := 0; d < fees.FeeDimensions; d++ {
		feeBig.Add(feeBig, new(big.Int).Mul(new(big.Int).SetUint64(price), new(big.Int).SetUint64(units[d])))
	}
	fee := feeBig.Uint64()
	var bal uint64
	switch bi {
	case 0:
		if fee == 0 {
			return
		}
		bal = fee - 1
	case 1:
		bal = fee
	case 2:
		bal = fee + 1
	case 3:
		bal = 1 << 50
	}
	evals.Add(1)
	base := map[string]string{}
	store := memStore{}
	if present {
		// k1 starts with the very value Put(k1) writes, so "write the block-start value back" occurs
		base[k1], base[k2] = "a", "2"
		store[k1], store[k2] = []byte("a"), []byte("2")
	}
	env := probe
	bstore := &mutStore{m: store}
	if bal > 0 {
		if err := env.BH.AddBalance(rig.Ctx, rig.Addr(0), bstore, bal); err != nil {
			evid.Infra("seed balance: %v", err)
		}
	}
	fm := ifees.NewManager(nil)
	for d := fees.Dimension(0); d < fees.FeeDimensions; d++ {
		fm.SetUnitPrice(d, price)
	}
	sk, err := tx.StateKeys(env.BH)
	if err != nil {
		evid.Infra("state keys: %v", err)
	}
	ts := tstate.New(4)
	if pm := priorMenu[prior]; pm != nil {
		pv := ts.NewView(state.Keys{k1: state.All, k2: state.All}, state.ImmutableStorage(store), 2)
		for _, k := range []string{k1, k2} {
			v, ok := pm[k]
			if !ok {
				continue
			}
			var perr error
			if v == nil {
				perr = pv.Remove(rig.Ctx, []byte(k))
				delete(base, k)
			} else {
				perr = pv.Insert(rig.Ctx, []byte(k), v)
				base[k] = string(v)
			}
			if perr != nil {
				evid.Infra("prior transaction: %v", perr)
			}
		}
		pv.Commit()
	}
	tsv := ts.NewView(sk, state.ImmutableStorage(store), len(sk))
	rep := map[string]any{"tx": t.String(), "basePopulated": present, "earlierInBlock": prior, "unitPrice": price, "handler": hi, "balance": bal, "fee": fee}
	viol := func(key, what string) {
		r.Violation("C03:"+key, what+fmt.Sprintf(" [tx %s base=%v earlier-in-block=%d price=%d handler=%d balance=%d fee=%d]", t.String(), present, prior, price, hi, bal, fee), rep)
	}
	gotUnits, err := tx.Units(env.BH, env.Rules)
	if err != nil || gotUnits != units {
		viol("units-differ-from-rule", fmt.Sprintf("Units()=%v,%v; rule gives %v", gotUnits, err, units))
		return
	}
	perr := tx.PreExecute(rig.Ctx, fm, env.BH, env.Rules, tsv, blockTs)
	if bal < fee {
		if perr == nil {
			viol("underfunded-accepted", "PreExecute accepted a sponsor that cannot pay the fee")
		}
		outcomes.Store("rejected", 1)
		return
	}
	if perr != nil {
		viol("funded-rejected", fmt.Sprintf("PreExecute rejected a sponsor that can pay: %v", perr))
		return
	}
	res, err := tx.Execute(rig.Ctx, fm, env.BH, env.Rules, tsv, blockTs)
	if err != nil {
		// The transaction cannot be included (a block containing it is invalid, the builder
		// skips it): the statement is about included transactions, so this is an outcome, not
		// a violation. Observed on the unchanged tree only for "no account at all, fee 0".
		outcomes.Store("not-includable:"+fmt.Sprint(bal == 0 && fee == 0), 1)
		notIncludable.Add(1)
		return
	}
	wantOK, wantOuts, wantState := refRun(t, base)
	if res.Fee != fee || res.Units != units {
		viol("fee-or-units-recorded-wrong", fmt.Sprintf("result fee=%d units=%v, expected fee=%d units=%v", res.Fee, res.Units, fee, units))
		return
	}
	nb, err := env.BH.GetBalance(rig.Ctx, rig.Addr(0), tsv)
	if err != nil || nb != bal-fee {
		viol("sponsor-not-charged-exactly-fee", fmt.Sprintf("sponsor balance after execution %d (err %v), expected %d - %d", nb, err, bal, fee))
		return
	}
	if res.Success != wantOK {
		viol("success-flag-wrong", fmt.Sprintf("result success=%v, expected %v (error %q)", res.Success, wantOK, res.Error))
		return
	}
	if len(res.Outputs) != len(wantOuts) {
		viol("outputs-differ", fmt.Sprintf("outputs %q, expected %q", res.Outputs, wantOuts))
		return
	}
	for i := range wantOuts {
		if string(res.Outputs[i]) != wantOuts[i] {
			viol("outputs-differ", fmt.Sprintf("outputs %q, expected %q", res.Outputs, wantOuts))
			return
		}
	}
	for _, k := range []string{k1, k2, kU} {
		v, gerr := tsv.GetValueNoScope(rig.Ctx, []byte(k))
		want, ok := wantState[k]
		if ok != (gerr == nil) || (ok && string(v) != want) {
			kind := "effects-not-applied"
			if !wantOK {
				kind = "failed-tx-effects-not-reverted"
			}
			viol(kind, fmt.Sprintf("key %s after execution = %q (err %v), expected %q present=%v", rig.KeyName(k), v, gerr, want, ok))
			return
		}
		if gerr != nil && !errors.Is(gerr, database.ErrNotFound) {
			viol("read-error", gerr.Error())
			return
		}
	}
	// committing the view publishes the fee charge and exactly the surviving effects
	tsv.Commit()
	// ... and the block-level state a later transaction reads holds exactly the expected values
	after := ts.NewView(state.Keys{k1: state.All, k2: state.All, kU: state.All}, state.ImmutableStorage(store), 3)
	for _, k := range []string{k1, k2, kU} {
		v, gerr := after.GetValue(rig.Ctx, []byte(k))
		want, ok := wantState[k]
		if ok != (gerr == nil) || (ok && string(v) != want) {
			kind := "committed-effects-lost"
			if !wantOK {
				kind = "failed-tx-effects-committed"
			}
			viol(kind, fmt.Sprintf("key %s read by a later transaction of the block = %q (err %v), expected %q present=%v", rig.KeyName(k), v, gerr, want, ok))
			return
		}
	}
	for k := range ts.ChangedKeys() {
		if k != k1 && k != k2 {
			if _, isSponsor := env.BH.SponsorStateKeys(rig.Addr(0))[k]; !isSponsor {
				viol("unexpected-key-published", fmt.Sprintf("commit published key %x", k))
				return
			}
		}
	}
	changed := false
	for _, sc := range t.scripts {
		for _, s := range sc {
			if stepMenu[s].Kind != rig.Get && stepMenu[s].Kind != rig.Fail {
				changed = true
			}
		}
	}
	if changed {
		nontriv.Add(1)
	}
	outcomes.Store(fmt.Sprint(res.Success, len(res.Outputs)), 1)
}

type mutStore struct{ m memStore }

func (s *mutStore) GetValue(_ context.Context, k []byte) ([]byte, error) {
	if v, ok := s.m[string(k)]; ok {
		return v, nil
	}
	return nil, database.ErrNotFound
}
func (s *mutStore) Insert(_ context.Context, k, v []byte) error { s.m[string(k)] = v; return nil }
func (s *mutStore) Remove(_ context.Context, k []byte) error    { delete(s.m, string(k)); return nil }
