// C33: fees.LargestSet returns a consistent fitting subset.
// Exhaustive grid: all lists of 0..N vectors over a boundary alphabet in 2 active
// dimensions (+ a third for the larger tier) x all limits from a limit alphabet.
package main

import (
	"fmt"
	"math/big"

	"github.com/ava-labs/hypersdk/fees"
	"github.com/ava-labs/hypersdk/internal/vshim/evid"
)

func main() {
	r := evid.Start("C33", "exploration")
	const l0, l1 = 5, 100
	limits := []fees.Dimensions{
		{l0, l1, 0, 0, 0},
		{l0, l1, 1 << 62, 7, 7},
		{^uint64(0), l1, 1, 1, 1},
		{0, 0, 0, 0, 0},
	}
	a0 := []uint64{0, 1, 3, l0, l0 + 1, 1 << 63, ^uint64(0)}
	a1 := []uint64{0, 1, 50, 90, l1, l1 + 1, ^uint64(0)}
	var vecs []fees.Dimensions
	for _, x := range a0 {
		for _, y := range a1 {
			vecs = append(vecs, fees.Dimensions{x, y, 0, 0, 0})
		}
	}
	if r.Thorough() {
		// a third active dimension
		for _, z := range []uint64{1, 7, 8} {
			vecs = append(vecs, fees.Dimensions{1, 1, 0, z, 0}, fees.Dimensions{0, 0, 0, z, z})
		}
	}
	maxLen := evid.Pick(r, 3, 4)
	evals, nontrivial := 0, 0
	outcomes := map[string]struct{}{}
	var rec func(cur []fees.Dimensions)
	checkOne := func(in []fees.Dimensions, limit fees.Dimensions) {
		evals++
		cp := append([]fees.Dimensions{}, in...)
		idx, total := fees.LargestSet(cp, limit)
		fail := func(kind, msg string) {
			r.Violation("C33:"+kind, msg, map[string]any{"input": in, "limit": limit, "indices": idx, "total": total})
		}
		seen := map[uint64]bool{}
		sum := [fees.FeeDimensions]*big.Int{}
		for k := range sum {
			sum[k] = new(big.Int)
		}
		ok := true
		for _, i := range idx {
			if i >= uint64(len(in)) {
				fail("index-out-of-range", fmt.Sprintf("index %d for %d inputs", i, len(in)))
				ok = false
				continue
			}
			if seen[i] {
				fail("duplicate-index", fmt.Sprintf("index %d returned twice", i))
				ok = false
			}
			seen[i] = true
			for k := 0; k < fees.FeeDimensions; k++ {
				sum[k].Add(sum[k], new(big.Int).SetUint64(in[i][k]))
			}
		}
		if !ok {
			return
		}
		for k := 0; k < fees.FeeDimensions; k++ {
			if sum[k].Cmp(new(big.Int).SetUint64(limit[k])) > 0 {
				fail("sum-exceeds-limit", fmt.Sprintf("dimension %d: sum %s > limit %d", k, sum[k], limit[k]))
				return
			}
			if sum[k].Cmp(new(big.Int).SetUint64(total[k])) != 0 {
				fail("total-not-sum-of-returned", fmt.Sprintf("dimension %d: total %d but returned indices sum to %s", k, total[k], sum[k]))
				return
			}
		}
		// every skipped input must not fit on top of the final sum (the accumulator only
		// grows, so "did not fit when considered" implies this).
		skipped := 0
		for i := range in {
			if seen[uint64(i)] {
				continue
			}
			skipped++
			fits := true
			for k := 0; k < fees.FeeDimensions; k++ {
				s := new(big.Int).Add(sum[k], new(big.Int).SetUint64(in[i][k]))
				if s.Cmp(new(big.Int).SetUint64(limit[k])) > 0 {
					fits = false
				}
			}
			if fits {
				fail("skipped-input-fits", fmt.Sprintf("input %d %v was skipped although it fits on top of the returned set", i, in[i]))
				return
			}
		}
		for i := range cp {
			if cp[i] != in[i] {
				fail("input-mutated", "input slice modified")
			}
		}
		if skipped > 0 && len(idx) > 0 {
			nontrivial++
		}
		outcomes[fmt.Sprint(len(idx), skipped)] = struct{}{}
		if evals%100000 == 1 {
			r.Sample(map[string]any{"input": in, "limit": limit, "indices": idx, "total": total})
		}
	}
	rec = func(cur []fees.Dimensions) {
		for _, l := range limits {
			checkOne(cur, l)
		}
		if len(cur) == maxLen {
			return
		}
		for _, v := range vecs {
			rec(append(cur, v))
		}
	}
	rec(nil)
	r.Cov["evaluations"] = evals
	r.Cov["distinct_nontrivial"] = nontrivial
	r.Cov["distinct_outcomes"] = len(outcomes)
	r.Cov["rule"] = fmt.Sprintf("every list of 0..%d vectors from a %d-vector boundary alphabet (ordered, with repetition) x %d limits; non-trivial = at least one input returned and at least one skipped", maxLen, len(vecs), len(limits))
	r.Cov["bounds"] = map[string]any{"max_len": maxLen, "vector_alphabet": len(vecs), "limits": len(limits)}
	r.Assumptions = []string{"values outside the boundary alphabet are not covered", "skipped-input oracle is the implied form: a skipped input must not fit on top of the final total"}
	r.Finish()
}
