// C15: transactions, blocks, batches and results have one canonical encoding.
//
// A corpus of valid encodings (transactions with 0..3 actions x {chaintest auth, ed25519,
// secp256r1, BLS}, blocks with and without block context and 0..2 transactions, gossip
// batches, results, execution results, executed blocks) is closed under an EXHAUSTIVE byte
// mutation set applied at every position (7 substitutions, deletion, 3 insertions,
// non-minimal varint re-encoding, truncation to every length, 1-2 appended bytes) and under
// structured mutations (trailing bytes inside every action / auth payload with corrected
// length prefixes, duplicated / reordered / emptied fields). Oracle, for EVERY byte string
// the real decoder accepts: re-encoding the decoded value yields the identical bytes, the id
// is the hash of the bytes, and the unsigned bytes equal the encoding of the body alone.
package main

import (
	"bytes"
	"fmt"
	"os"
	"runtime"
	"sync"
	"sync/atomic"

	"github.com/ava-labs/avalanchego/ids"
	"github.com/ava-labs/avalanchego/snow/engine/snowman/block"

	"github.com/ava-labs/hypersdk/auth"
	"github.com/ava-labs/hypersdk/chain"
	"github.com/ava-labs/hypersdk/chain/chaintest"
	"github.com/ava-labs/hypersdk/codec"
	"github.com/ava-labs/hypersdk/examples/morpheusvm/actions"
	"github.com/ava-labs/hypersdk/fees"
	"github.com/ava-labs/hypersdk/internal/vshim/evid"
	"github.com/ava-labs/hypersdk/state"
	"github.com/ava-labs/hypersdk/utils"
	"github.com/ava-labs/hypersdk/verifh/rigkeys"
)

type kind int

const (
	kTx kind = iota
	kBlock
	kBatch
	kResult
	kExecResults
	kExecutedBlock
)

var kindNames = []string{"transaction", "block", "batch", "result", "execution-results", "executed-block"}

type item struct {
	k      kind
	parser int // 0 chaintest, 1 morpheus
	b      []byte
	what   string
}

var parsers [2]chain.Parser

func init() {
	parsers[0] = chaintest.NewTestParser()
	ac := codec.NewTypeParser[chain.Action]()
	au := codec.NewTypeParser[chain.Auth]()
	must(ac.Register(&actions.Transfer{}, actions.UnmarshalTransfer))
	must(au.Register(&auth.ED25519{}, auth.UnmarshalED25519))
	must(au.Register(&auth.SECP256R1{}, auth.UnmarshalSECP256R1))
	must(au.Register(&auth.BLS{}, auth.UnmarshalBLS))
	parsers[1] = chain.NewTxTypeParser(ac, au)
}

func must(err error) {
	if err != nil {
		panic(err)
	}
}

// reTx re-encodes a decoded transaction from its structured fields only.
func reTx(tx *chain.Transaction) (*chain.Transaction, error) {
	return chain.NewTransaction(tx.Base, tx.Actions, tx.Auth)
}

func checkTx(tx *chain.Transaction, in []byte) (string, string) {
	if !bytes.Equal(tx.Bytes(), in) {
		return "tx-bytes-differ-from-input", "Transaction.Bytes() is not the accepted byte string"
	}
	if tx.GetID() != utils.ToID(in) {
		return "tx-id-not-hash-of-bytes", "transaction id is not the hash of the accepted bytes"
	}
	re, err := reTx(tx)
	if err != nil {
		return "tx-reencode-error", err.Error()
	}
	if !bytes.Equal(re.Bytes(), in) {
		return "tx-not-canonical", fmt.Sprintf("accepted %d bytes, re-encoding of the decoded transaction has %d bytes and differs (two encodings of one transaction value)", len(in), len(re.Bytes()))
	}
	body := chain.NewTxData(tx.Base, tx.Actions)
	if !bytes.Equal(tx.UnsignedBytes(), body.UnsignedBytes()) {
		return "tx-unsigned-bytes-differ", "the message the signature covers is not the encoding of the body without the signature"
	}
	return "", ""
}

// decodeCheck decodes one byte string; returns accepted, violation key, description.
func decodeCheck(it item, in []byte) (bool, string, string) {
	p := parsers[it.parser]
	switch it.k {
	case kTx:
		tx, err := chain.UnmarshalTx(in, p)
		if err != nil {
			return false, "", ""
		}
		k, w := checkTx(tx, in)
		return true, k, w
	case kBlock:
		b, err := chain.UnmarshalBlock(in, p)
		if err != nil {
			return false, "", ""
		}
		k, w := checkBlock(b, in)
		return true, k, w
	case kBatch:
		s := &chain.BatchedTransactionSerializer{Parser: p}
		txs, err := s.Unmarshal(in)
		if err != nil {
			return false, "", ""
		}
		var res []*chain.Transaction
		for _, tx := range txs {
			if k, w := checkTx(tx, tx.Bytes()); k != "" {
				return true, "batch:" + k, w
			}
			re, _ := reTx(tx)
			res = append(res, re)
		}
		if !bytes.Equal(s.Marshal(res), in) {
			return true, "batch-not-canonical", "re-encoding of the decoded batch differs from the accepted bytes"
		}
		return true, "", ""
	case kResult:
		r, err := chain.UnmarshalResult(in)
		if err != nil {
			return false, "", ""
		}
		re := &chain.Result{Success: r.Success, Error: r.Error, Outputs: r.Outputs, Units: r.Units, Fee: r.Fee}
		if !bytes.Equal(re.Marshal(), in) {
			return true, "result-not-canonical", "re-encoding of the decoded result differs from the accepted bytes"
		}
		return true, "", ""
	case kExecResults:
		r, err := chain.ParseExecutionResults(in)
		if err != nil {
			return false, "", ""
		}
		var rs []*chain.Result
		for _, x := range r.Results {
			if x == nil {
				rs = append(rs, nil)
				continue
			}
			rs = append(rs, &chain.Result{Success: x.Success, Error: x.Error, Outputs: x.Outputs, Units: x.Units, Fee: x.Fee})
		}
		re := chain.NewExecutionResults(rs, r.UnitPrices, r.UnitsConsumed)
		if !bytes.Equal(re.Marshal(), in) {
			return true, "execution-results-not-canonical", "re-encoding differs from the accepted bytes"
		}
		return true, "", ""
	case kExecutedBlock:
		eb, err := chain.UnmarshalExecutedBlock(in, p)
		if err != nil {
			return false, "", ""
		}
		if eb.Block == nil || eb.ExecutionResults == nil {
			// pointer fields may be absent; re-encode as is
			re := &chain.ExecutedBlock{Block: eb.Block, ExecutionResults: eb.ExecutionResults}
			out, _ := re.Marshal()
			if !bytes.Equal(out, in) {
				return true, "executed-block-not-canonical", "re-encoding differs (absent pointer field)"
			}
			return true, "", ""
		}
		if k, w := checkBlock(eb.Block, eb.Block.GetBytes()); k != "" {
			return true, "executed-block:" + k, w
		}
		nb, err := reBlock(eb.Block)
		if err != nil {
			return true, "block-reencode-error", err.Error()
		}
		re := chain.NewExecutedBlock(nb, eb.ExecutionResults.Results, eb.ExecutionResults.UnitPrices, eb.ExecutionResults.UnitsConsumed)
		out, _ := re.Marshal()
		if !bytes.Equal(out, in) {
			return true, "executed-block-not-canonical", "re-encoding differs from the accepted bytes"
		}
		return true, "", ""
	}
	panic("kind")
}

func reBlock(b *chain.StatelessBlock) (*chain.StatelessBlock, error) {
	var txs []*chain.Transaction
	for _, tx := range b.Txs {
		re, err := reTx(tx)
		if err != nil {
			return nil, err
		}
		txs = append(txs, re)
	}
	return chain.NewStatelessBlock(b.Prnt, b.Tmstmp, b.Hght, txs, b.StateRoot, b.BlockContext)
}

func checkBlock(b *chain.StatelessBlock, in []byte) (string, string) {
	if !bytes.Equal(b.GetBytes(), in) {
		return "block-bytes-differ-from-input", "StatelessBlock.GetBytes() is not the accepted byte string"
	}
	if b.GetID() != utils.ToID(in) {
		return "block-id-not-hash-of-bytes", "block id is not the hash of the accepted bytes"
	}
	for i, tx := range b.Txs {
		if k, w := checkTx(tx, tx.Bytes()); k != "" {
			return "block:" + k, fmt.Sprintf("transaction %d: %s", i, w)
		}
	}
	re, err := reBlock(b)
	if err != nil {
		return "block-reencode-error", err.Error()
	}
	if !bytes.Equal(re.GetBytes(), in) {
		return "block-not-canonical", fmt.Sprintf("accepted %d bytes, re-encoding of the decoded block has %d bytes and differs", len(in), len(re.GetBytes()))
	}
	return "", ""
}

// ---------------------------------------------------------------- corpus

func testAction(n uint64, rich bool) chain.Action {
	a := &chaintest.TestAction{NumComputeUnits: 1, SpecifiedStateKeys: []string{}, SpecifiedStateKeyPermissions: []state.Permissions{}, ReadKeys: [][]byte{}, WriteKeys: [][]byte{}, WriteValues: [][]byte{}, Start: -1, End: -1, Nonce: n}
	if rich {
		a.SpecifiedStateKeys = []string{"k\x00\x01"}
		a.SpecifiedStateKeyPermissions = []state.Permissions{state.All}
		a.WriteKeys = [][]byte{[]byte("k\x00\x01")}
		a.WriteValues = [][]byte{{1, 2, 3}}
		a.ExecuteErr = true
	}
	return a
}

func transfer(n uint64, memo int) chain.Action {
	var to codec.Address
	to[0] = 1
	to[5] = byte(n)
	return &actions.Transfer{To: to, Value: n + 1, Memo: bytes.Repeat([]byte{0x61}, memo)}
}

type txShape struct {
	parser  int
	actions []chain.Action
	scheme  string // "" = chaintest auth
	base    chain.Base
}

func (s txShape) build() *chain.Transaction {
	if s.scheme == "" {
		a := &chaintest.TestAuth{NumComputeUnits: 1, ActorAddress: codec.Address{1, 2, 3}, SponsorAddress: codec.Address{1, 2, 3}, Start: -1, End: -1}
		tx, err := chain.NewTransaction(s.base, s.actions, a)
		must(err)
		return tx
	}
	td := chain.NewTxData(s.base, s.actions)
	tx, err := td.Sign(rigkeys.Factory(s.scheme, 0))
	must(err)
	return tx
}

func corpus(thorough bool) []item {
	var out []item
	b1 := chain.Base{Timestamp: 1_700_000_001_000, ChainID: ids.ID{1, 2, 3}, MaxFee: 12345}
	b0 := chain.Base{Timestamp: 1000, ChainID: ids.Empty, MaxFee: 0} // zero-valued fields are omitted by the codec
	var shapes []txShape
	shapes = append(shapes,
		txShape{0, nil, "", b1},
		txShape{0, []chain.Action{testAction(0, false)}, "", b1},
		txShape{0, []chain.Action{testAction(1, true)}, "", b0},
		txShape{0, []chain.Action{testAction(0, false), testAction(1, true), testAction(2, false)}, "", b1},
		txShape{1, nil, "ed25519", b1},
		txShape{1, []chain.Action{transfer(1, 0)}, "ed25519", b1},
		txShape{1, []chain.Action{transfer(1, 3)}, "secp256r1", b0},
		txShape{1, []chain.Action{transfer(1, 0), transfer(2, 200)}, "bls", b1},
	)
	if thorough {
		shapes = append(shapes,
			txShape{1, []chain.Action{transfer(1, 256), transfer(2, 1), transfer(3, 0)}, "secp256r1", b1},
			txShape{1, []chain.Action{transfer(7, 130)}, "bls", b0},
		)
	}
	var txs [2][]*chain.Transaction
	for i, s := range shapes {
		tx := s.build()
		txs[s.parser] = append(txs[s.parser], tx)
		out = append(out, item{kTx, s.parser, tx.Bytes(), fmt.Sprintf("tx shape %d (%d actions, auth %q)", i, len(s.actions), s.scheme)})
	}
	root := ids.ID{9, 9}
	for p := 0; p < 2; p++ {
		for _, n := range []int{0, 1, 2} {
			for _, ctx := range []*block.Context{nil, {PChainHeight: 77}} {
				if ctx != nil && n == 2 && !thorough {
					continue
				}
				blk, err := chain.NewStatelessBlock(ids.ID{4}, 1_700_000_000_500, 7, txs[p][1:1+n], root, ctx)
				must(err)
				out = append(out, item{kBlock, p, blk.GetBytes(), fmt.Sprintf("block parser %d, %d txs, context=%v", p, n, ctx != nil)})
				if n == 1 && ctx == nil {
					res := []*chain.Result{{Success: true, Outputs: [][]byte{{1, 2}}, Units: fees.Dimensions{1, 2, 3, 4, 5}, Fee: 15}}
					eb := chain.NewExecutedBlock(blk, res, fees.Dimensions{1, 1, 1, 1, 1}, fees.Dimensions{1, 2, 3, 4, 5})
					ebb, _ := eb.Marshal()
					out = append(out, item{kExecutedBlock, p, ebb, fmt.Sprintf("executed block parser %d", p)})
				}
			}
		}
		s := &chain.BatchedTransactionSerializer{Parser: parsers[p]}
		out = append(out, item{kBatch, p, s.Marshal(txs[p][:2]), fmt.Sprintf("batch of 2, parser %d", p)})
		out = append(out, item{kBatch, p, s.Marshal(nil), fmt.Sprintf("empty batch, parser %d", p)})
	}
	results := []*chain.Result{
		{Success: true, Outputs: [][]byte{{1, 2, 3}, {}}, Units: fees.Dimensions{1, 2, 3, 4, 5}, Fee: 99},
		{Success: false, Error: []byte("boom"), Outputs: nil, Units: fees.Dimensions{}, Fee: 0},
		{},
	}
	for i, r := range results {
		out = append(out, item{kResult, 0, r.Marshal(), fmt.Sprintf("result %d", i)})
	}
	er := chain.NewExecutionResults(results[:2], fees.Dimensions{1, 1, 1, 1, 1}, fees.Dimensions{9, 8, 7, 6, 5})
	out = append(out, item{kExecResults, 0, er.Marshal(), "execution results (2)"})
	out = append(out, item{kExecResults, 0, chain.NewExecutionResults(nil, fees.Dimensions{}, fees.Dimensions{}).Marshal(), "empty execution results"})

	// ---- structured transaction mutations (length prefixes corrected by the real serializer)
	for i, s := range shapes {
		tx := s.build()
		var ab []codec.Bytes
		for _, a := range tx.Actions {
			ab = append(ab, a.Bytes())
		}
		authB := tx.Auth.Bytes()
		emit := func(acts []codec.Bytes, au []byte, what string) {
			st := &chain.SerializeTx{Base: s.base, Actions: acts, Auth: au}
			out = append(out, item{kTx, s.parser, st.MarshalCanoto(), fmt.Sprintf("tx shape %d: %s", i, what)})
		}
		for k := range ab {
			for _, extra := range [][]byte{{0}, {1}, {0, 0}, {0xff}} {
				m := append([]codec.Bytes{}, ab...)
				m[k] = append(append(codec.Bytes{}, ab[k]...), extra...)
				emit(m, authB, fmt.Sprintf("action %d payload with trailing bytes %x", k, extra))
			}
			m := append([]codec.Bytes{}, ab...)
			m[k] = ab[k][:len(ab[k])-1]
			emit(m, authB, fmt.Sprintf("action %d payload one byte short", k))
			d := append(append([]codec.Bytes{}, ab...), ab[k])
			emit(d, authB, fmt.Sprintf("action %d duplicated at the end", k))
		}
		for _, extra := range [][]byte{{0}, {1}, {0xff, 0xff}} {
			emit(ab, append(append([]byte{}, authB...), extra...), fmt.Sprintf("auth payload with trailing bytes %x", extra))
		}
		emit(ab, nil, "auth field absent")
		emit(ab, authB[:1], "auth payload = type byte only")
		if len(ab) >= 2 {
			sw := append([]codec.Bytes{}, ab...)
			sw[0], sw[1] = sw[1], sw[0]
			emit(sw, authB, "first two actions swapped")
		}
	}
	return out
}

// ---------------------------------------------------------------- byte mutations

// mutants calls f for every mutated copy of b.
func mutants(b []byte, f func(m []byte, what string)) {
	n := len(b)
	buf := make([]byte, 0, n+3)
	for i := 0; i < n; i++ {
		for _, v := range []byte{0x00, 0x01, 0x7f, 0x80, 0xff, b[i] ^ 1, b[i] + 1} {
			if v == b[i] {
				continue
			}
			buf = append(buf[:0], b...)
			buf[i] = v
			f(buf, fmt.Sprintf("byte %d: %02x -> %02x", i, b[i], v))
		}
		buf = append(append(buf[:0], b[:i]...), b[i+1:]...)
		f(buf, fmt.Sprintf("byte %d deleted", i))
		for _, v := range []byte{0x00, 0x01, 0x80} {
			buf = append(append(append(buf[:0], b[:i]...), v), b[i:]...)
			f(buf, fmt.Sprintf("byte %02x inserted before %d", v, i))
		}
		if b[i] < 0x80 {
			// non-minimal varint: x -> (x|0x80) 0x00
			buf = append(append(append(buf[:0], b[:i]...), b[i]|0x80, 0x00), b[i+1:]...)
			f(buf, fmt.Sprintf("byte %d re-encoded as a non-minimal varint", i))
		}
		buf = append(buf[:0], b[:i]...)
		f(buf, fmt.Sprintf("truncated to %d bytes", i))
	}
	for _, tail := range [][]byte{{0}, {1}, {0, 0}, {0x80}, {0x0a, 0x00}, {0x38, 0x00}} {
		buf = append(append(buf[:0], b...), tail...)
		f(buf, fmt.Sprintf("bytes %x appended", tail))
	}
	// duplicate the encoding (repeated top-level fields)
	buf = append(append(buf[:0], b...), b...)
	f(buf, "encoding concatenated with itself")
}

func main() {
	r := evid.Start("C15", "exploration")
	items := corpus(r.Thorough())
	if p := evid.ReplayPayload(); p != nil {
		idx := int(p["item"].(float64))
		var in []byte
		fmt.Sscanf(p["input_hex"].(string), "%x", &in)
		acc, k, w := decodeCheck(items[idx], in)
		fmt.Printf("replay: %s (%s) accepted=%v key=%q %s\n", kindNames[items[idx].k], items[idx].what, acc, k, w)
		if k != "" {
			os.Exit(1)
		}
		os.Exit(0)
	}
	var parses, accepted, acceptedMut atomic.Int64
	var wg sync.WaitGroup
	var mu sync.Mutex
	first := map[string]bool{}
	report := func(it item, idx int, in []byte, mut, k, w string) {
		key := "C15:" + k
		mu.Lock()
		seen := first[key]
		first[key] = true
		mu.Unlock()
		if seen {
			return
		}
		r.Violation(key, fmt.Sprintf("%s [%s; %s]: %s", kindNames[it.k], it.what, mut, w), map[string]any{"item": idx, "mutation": mut, "input_hex": fmt.Sprintf("%x", in)})
	}
	nw := runtime.NumCPU()
	for w := 0; w < nw; w++ {
		wg.Add(1)
		go func(w int) {
			defer wg.Done()
			for idx := w; idx < len(items); idx += nw {
				it := items[idx]
				if r.Expired() {
					r.Cap("deadline reached")
					return
				}
				// the corpus entry itself
				acc, k, wh := decodeCheck(it, it.b)
				parses.Add(1)
				if acc {
					accepted.Add(1)
				}
				if k != "" {
					report(it, idx, it.b, "corpus entry", k, wh)
				}
				mutants(it.b, func(m []byte, what string) {
					acc, k, wh := decodeCheck(it, m)
					parses.Add(1)
					if acc {
						acceptedMut.Add(1)
					}
					if k != "" {
						report(it, idx, append([]byte{}, m...), what, k, wh)
					}
				})
			}
		}(w)
	}
	wg.Wait()
	r.Sample(map[string]any{"item": items[1].what, "bytes": len(items[1].b)})
	r.Cov["evaluations"] = parses.Load()
	r.Cov["distinct_nontrivial"] = accepted.Load() + acceptedMut.Load()
	r.Cov["corpus_entries"] = len(items)
	r.Cov["corpus_entries_accepted"] = accepted.Load()
	r.Cov["mutated_strings_accepted"] = acceptedMut.Load()
	r.Cov["rule"] = "corpus (valid encodings + structured transaction mutations built with the real serializer) x every position x {7 substitutions, deletion, 3 insertions, non-minimal varint, truncation} + 6 appended tails + self-concatenation; every accepted string is re-encoded from the decoded value and compared byte for byte; ids compared with the hash; unsigned bytes compared with the body encoding"
	r.Assumptions = []string{"two action/auth registries: chaintest (TestAction, TestAuth) and MorpheusVM (Transfer; ed25519, secp256r1, BLS)", "mutations are single-site (plus the listed structured ones); signatures need not verify to be decoded"}
	r.Finish()
}
