// C40: size-suffixed state keys bound the values they can hold. Exhaustive grid over short
// keys x value lengths (dense 0..300 (quick) / 0..4200 (thorough) plus +-1 around 64*{2^8,2^15,65534,65535,65536}).
package main

import (
	"context"
	"encoding/binary"
	"fmt"

	"github.com/ava-labs/avalanchego/database"

	"github.com/ava-labs/hypersdk/internal/vshim/evid"
	"github.com/ava-labs/hypersdk/keys"
	"github.com/ava-labs/hypersdk/state"
	"github.com/ava-labs/hypersdk/state/tstate"
)

type emptyStore struct{}

func (emptyStore) GetValue(context.Context, []byte) ([]byte, error) { return nil, database.ErrNotFound }

// refChunks: chunk count of a value of length l under the 64-byte chunk rule used for
// encoding keys: 0 for empty, else l/64+1; not representable above 65535.
func refChunks(l int) (int, bool) {
	if l == 0 {
		return 0, true
	}
	c := l/64 + 1
	return c, c <= 65535
}

func main() {
	r := evid.Start("C40", "exploration")
	ctx := context.Background()
	evals, nontriv := 0, 0
	// value lengths
	lens := map[int]struct{}{}
	dense := evid.Pick(r, 300, 4200)
	for l := 0; l <= dense; l++ {
		lens[l] = struct{}{}
	}
	for _, c := range []int{1 << 8, 1 << 15, 65534, 65535, 65536} {
		for d := -2; d <= 2; d++ {
			lens[64*c+d] = struct{}{}
			lens[64*(c-1)+d] = struct{}{}
		}
	}
	maxLen := 0
	for l := range lens {
		if l > maxLen {
			maxLen = l
		}
	}
	buf := make([]byte, maxLen)
	// keys: all byte strings of length 0..4 over a small alphabet
	alpha := []byte{0x00, 0x01, 0x02, 0x05, 0xff}
	var ks [][]byte
	var gen func(cur []byte)
	gen = func(cur []byte) {
		ks = append(ks, append([]byte{}, cur...))
		if len(cur) == 4 {
			return
		}
		for _, b := range alpha {
			gen(append(cur, b))
		}
	}
	gen(nil)
	// a few suffixes at the 16-bit extremes
	for _, suf := range []uint16{255, 256, 32767, 32768, 65534, 65535} {
		ks = append(ks, binary.BigEndian.AppendUint16([]byte{7}, suf), binary.BigEndian.AppendUint16(nil, suf))
	}
	fail := func(kind, msg string, rep any) { r.Violation("C40:"+kind, msg, rep) }
	for _, k := range ks {
		evals++
		valid := len(k) >= 2
		var want uint16
		if valid {
			want = uint16(k[len(k)-2])<<8 | uint16(k[len(k)-1])
		}
		if keys.Valid(string(k)) != valid {
			fail("valid", fmt.Sprintf("keys.Valid(%x)=%v", k, !valid), map[string]any{"key": k})
		}
		mc, ok := keys.MaxChunks(k)
		if ok != valid || (valid && mc != want) {
			fail("maxchunks", fmt.Sprintf("MaxChunks(%x)=%d,%v want %d,%v", k, mc, ok, want, valid), map[string]any{"key": k})
		}
		dc, ok := keys.DecodeChunks(k)
		if ok != valid || (valid && dc != want) {
			fail("decodechunks", fmt.Sprintf("DecodeChunks(%x)=%d,%v want %d,%v", k, dc, ok, want, valid), map[string]any{"key": k})
		}
		sk := state.Keys{}
		if sk.Add(string(k), state.All) != valid || (len(sk) == 1) != valid {
			fail("keys-add", fmt.Sprintf("state.Keys.Add(%x) accepted=%v", k, !valid), map[string]any{"key": k})
		}
		if valid {
			cs, ok := state.Keys{string(k): state.Read}.ChunkSizes()
			if !ok || len(cs) != 1 || cs[0] != want {
				fail("chunksizes", fmt.Sprintf("ChunkSizes(%x)=%v,%v", k, cs, ok), map[string]any{"key": k})
			}
		} else if _, ok := (state.Keys{string(k): state.Read}).ChunkSizes(); ok {
			fail("chunksizes-short-key", fmt.Sprintf("ChunkSizes accepts short key %x", k), map[string]any{"key": k})
		}
		// Verify(maxKeySize,maxValueChunks,key)
		for _, mvc := range []uint16{0, 1, want, want - 1, want + 1, 65535} {
			for _, mks := range []uint32{0, 1, uint32(len(k)) - 1, uint32(len(k)), uint32(len(k)) + 1} {
				evals++
				exp := valid && uint64(len(k)) <= uint64(mks) && want <= mvc
				if got := keys.Verify(mks, mvc, k); got != exp {
					fail("verify", fmt.Sprintf("keys.Verify(%d,%d,%x)=%v want %v", mks, mvc, k, got, exp), map[string]any{"key": k, "maxKeySize": mks, "maxValueChunks": mvc})
				}
			}
		}
		for l := range lens {
			evals++
			v := buf[:l]
			rc, rok := refChunks(l)
			nc, nok := keys.NumChunks(v)
			if nok != rok || (rok && int(nc) != rc) {
				fail("numchunks", fmt.Sprintf("NumChunks(len %d)=%d,%v want %d,%v", l, nc, nok, rc, rok), map[string]any{"len": l})
			}
			exp := valid && rok && rc <= int(want)
			if got := keys.VerifyValue(k, v); got != exp {
				fail("verifyvalue", fmt.Sprintf("VerifyValue(key %x, len %d)=%v want %v", k, l, got, exp), map[string]any{"key": k, "len": l})
			}
			if exp && l > 0 {
				nontriv++
			}
			// the real write path: only for lengths near the key's own boundary and a few others
			near := !valid || l <= 2 || (l >= 64*int(want)-66 && l <= 64*int(want)+66)
			if near {
				evals++
				tv := tstate.New(1).NewView(state.CompletePermissions, emptyStore{}, 1)
				err := tv.Insert(ctx, k, v)
				if (err == nil) != exp {
					fail("insert", fmt.Sprintf("TStateView.Insert(key %x, len %d) err=%v, expected admitted=%v", k, l, err, exp), map[string]any{"key": k, "len": l})
				} else if err == nil {
					if got, gerr := tv.GetValue(ctx, k); gerr != nil || len(got) != l {
						fail("insert-readback", fmt.Sprintf("inserted %d bytes under %x, read back %d bytes err=%v", l, k, len(got), gerr), map[string]any{"key": k, "len": l})
					}
				} else if tv.PendingChanges() != 0 || tv.OpIndex() != 0 {
					fail("insert-refused-but-changed", fmt.Sprintf("refused insert under %x changed the view", k), map[string]any{"key": k, "len": l})
				}
			}
		}
	}
	// Encode(key,maxSize) admits every value up to maxSize (dense for small sizes, boundary for large)
	encSizes := map[int]struct{}{}
	for m := 0; m <= dense; m++ {
		encSizes[m] = struct{}{}
	}
	for _, c := range []int{1 << 8, 1 << 15, 65534, 65535, 65536} {
		for d := -2; d <= 2; d++ {
			encSizes[64*c+d] = struct{}{}
		}
	}
	for m := range encSizes {
		for _, base := range [][]byte{nil, {9}, {1, 2, 3}} {
			evals++
			ek, ok := keys.Encode(append([]byte{}, base...), m)
			_, rok := refChunks(m)
			if ok != rok {
				fail("encode-ok", fmt.Sprintf("Encode(maxSize %d) ok=%v want %v", m, ok, rok), map[string]any{"maxSize": m})
				continue
			}
			if !ok {
				continue
			}
			if len(ek) != len(base)+2 || string(ek[:len(base)]) != string(base) {
				fail("encode-shape", fmt.Sprintf("Encode(%x,%d)=%x", base, m, ek), map[string]any{"maxSize": m})
				continue
			}
			// every l <= m admitted (dense below 300 / all boundary lengths <= m)
			for l := range lens {
				if l > m {
					continue
				}
				evals++
				if !keys.VerifyValue(ek, buf[:l]) {
					fail("encode-rejects-fitting-value", fmt.Sprintf("key encoded for maxSize %d rejects a value of %d bytes", m, l), map[string]any{"maxSize": m, "len": l})
					break
				}
				nontriv++
			}
			mc, _ := keys.MaxChunks(ek)
			if ec := keys.EncodeChunks(append([]byte{}, base...), mc); string(ec) != string(ek) {
				fail("encodechunks", "EncodeChunks(MaxChunks(Encode)) differs", map[string]any{"maxSize": m})
			}
		}
	}
	r.Sample(map[string]any{"key": []byte{7, 0, 2}, "declared_chunks": 2, "largest_value_admitted": 127})
	r.Cov["evaluations"] = evals
	r.Cov["distinct_nontrivial"] = nontriv
	r.Cov["rule"] = fmt.Sprintf("%d keys (all strings of length 0..4 over {00,01,02,05,ff} + 16-bit extreme suffixes) x %d value lengths (0..%d dense, +-2 around 64*{2^8,2^15,65534,65535,65536}); real TStateView.Insert near each key's boundary; Encode for %d max sizes x all fitting lengths; non-trivial = admitted non-empty values", len(ks), len(lens), dense, len(encSizes))
	r.Assumptions = []string{"chunk count of a value = 0 if empty else len/64+1 (the rule Encode uses)"}
	r.Finish()
}
