// C34: utils.FormatBalance / utils.ParseBalance round trip, exhaustive over boundary
// alphabets of balances and decimal strings, against a math/big reference.
package main

import (
	"fmt"
	"math/big"
	"strings"

	"github.com/ava-labs/hypersdk/consts"
	"github.com/ava-labs/hypersdk/internal/vshim/evid"
	"github.com/ava-labs/hypersdk/utils"
)

func main() {
	r := evid.Start("C34", "exploration")
	evals, nontriv := 0, 0
	unit := new(big.Int).Exp(big.NewInt(10), big.NewInt(int64(consts.Decimals)), nil)
	maxU := new(big.Int).SetUint64(^uint64(0))

	// ---- direction 1: balance -> text -> balance
	bal := map[uint64]struct{}{}
	for i := uint64(0); i <= 1_000_000; i++ {
		bal[i] = struct{}{}
	}
	p10 := uint64(1)
	for k := 0; k < 20; k++ {
		for d := uint64(0); d <= 3; d++ {
			bal[p10+d] = struct{}{}
			bal[p10-d] = struct{}{}
		}
		p10 *= 10
	}
	for k := 0; k < 64; k++ {
		for d := uint64(0); d <= 3; d++ {
			bal[(uint64(1)<<k)+d] = struct{}{}
			bal[(uint64(1)<<k)-d] = struct{}{}
		}
	}
	for d := uint64(0); d <= 3; d++ {
		bal[^uint64(0)-d] = struct{}{}
	}
	if r.Thorough() {
		// dense neighbourhoods of 2^53 and of 1 token
		for d := uint64(0); d < 200_000; d++ {
			bal[(1<<53)-100_000+d] = struct{}{}
			bal[1_000_000_000-100_000+d] = struct{}{}
			bal[^uint64(0)-d] = struct{}{}
		}
	}
	for b := range bal {
		evals++
		s := utils.FormatBalance(b)
		// the text must denote exactly this amount (implied by round trip + exact parsing;
		// compared numerically so that any decimal layout is accepted)
		if ref, ok := refParse(s); ok && ref.Cmp(new(big.Int).SetUint64(b)) != 0 {
			r.Violation("C34:format-inexact", fmt.Sprintf("FormatBalance(%d)=%q which denotes %s base units", b, s, ref), map[string]any{"balance": b, "got": s})
			continue
		}
		got, err := utils.ParseBalance(s)
		if err != nil || got != b {
			r.Violation("C34:roundtrip", fmt.Sprintf("ParseBalance(FormatBalance(%d)=%q) = %d, %v", b, s, got, err), map[string]any{"balance": b, "text": s, "got": got, "err": fmt.Sprint(err)})
			continue
		}
		if b >= 1<<53 || b%1_000_000_000 != 0 {
			nontriv++
		}
	}
	r.Sample(map[string]any{"balance": uint64(1<<53 + 1), "text": utils.FormatBalance(1<<53 + 1)})

	// ---- direction 2: decimal string -> exact base units
	ints := []string{"0", "1", "18446744073"}
	if r.Thorough() {
		ints = []string{"0", "1", "9", "10", "123456789", "999999999", "1000000000", "4294967295", "9007199", "9007199254", "18446744072", "18446744073"}
	}
	digits := []byte{'0', '1', '5', '9'}
	var fracs []string
	var gen func(cur []byte)
	gen = func(cur []byte) {
		if len(cur) > 0 {
			fracs = append(fracs, string(cur))
		}
		if len(cur) == int(consts.Decimals) {
			return
		}
		for _, d := range digits {
			gen(append(cur, d))
		}
	}
	gen(nil)
	fracs = append(fracs, "") // no fractional part at all
	for _, ip := range ints {
		iv, _ := new(big.Int).SetString(ip, 10)
		for _, f := range fracs {
			s := ip
			fv := new(big.Int)
			if f != "" {
				s = ip + "." + f
				fv.SetString(f+strings.Repeat("0", int(consts.Decimals)-len(f)), 10)
			}
			want := new(big.Int).Mul(iv, unit)
			want.Add(want, fv)
			if want.Cmp(maxU) > 0 {
				continue // out of range: the statement does not define it
			}
			evals++
			got, err := utils.ParseBalance(s)
			if err != nil || new(big.Int).SetUint64(got).Cmp(want) != 0 {
				r.Violation("C34:parse-inexact", fmt.Sprintf("ParseBalance(%q) = %d, %v; exact amount is %s", s, got, err, want), map[string]any{"text": s, "got": got, "want": want.String(), "err": fmt.Sprint(err)})
				continue
			}
			nontriv++
			if evals%50000 == 0 {
				r.Sample(map[string]any{"text": s, "parsed": got})
			}
		}
	}
	r.Cov["evaluations"] = evals
	r.Cov["distinct_nontrivial"] = nontriv
	r.Cov["rule"] = "balances: 0..10^6, 10^k±3, 2^k±3, 2^64-1-δ (thorough: dense windows round 2^53, 10^9, 2^64); strings: integer parts x every fraction of 0..9 digits over {0,1,5,9}; non-trivial = balance >= 2^53 or with a fractional part / every in-range string"
	r.Cov["bounds"] = map[string]any{"balances": len(bal), "integer_parts": len(ints), "fractions": len(fracs)}
	r.Assumptions = []string{"strings outside plain decimal notation (exponents, signs) are outside the statement"}
	r.Finish()
}

// refParse is the reference reading of a plain decimal string with <= 9 fractional digits.
func refParse(s string) (*big.Int, bool) {
	ip, fp, _ := strings.Cut(s, ".")
	if len(ip)+len(fp) == 0 || len(fp) > int(consts.Decimals) {
		return nil, false
	}
	for _, c := range ip + fp {
		if c < '0' || c > '9' {
			return nil, false
		}
	}
	v, _ := new(big.Int).SetString("0"+ip+fp+strings.Repeat("0", int(consts.Decimals)-len(fp)), 10)
	return v, true
}
