// C24 (a): the prefetcher reads each declared key once and hands every transaction exactly
// the parent's values; a failing read fails instead of hanging or turning into absence.
// The real internal/fetcher (instrumented) under the controlled scheduler, all interleavings
// of the submitting thread, fetch workers and two consumer threads.
package main

import (
	"context"
	"errors"
	"fmt"
	"os"
	"sort"
	"strconv"
	"sync"

	"github.com/ava-labs/avalanchego/database"
	"github.com/ava-labs/avalanchego/ids"

	"github.com/ava-labs/hypersdk/internal/fetcher"
	"github.com/ava-labs/hypersdk/internal/vshim/evid"
	"github.com/ava-labs/hypersdk/internal/vshim/vsched"
	"github.com/ava-labs/hypersdk/state"
)

var (
	keyNames = []string{"a\x00\x01", "b\x00\x01", "c\x00\x01", "d\x00\x01", "e\x00\x01"}
	parent   = map[string][]byte{keyNames[0]: []byte("A"), keyNames[2]: []byte("C")} // b is absent
	errRead  = errors.New("injected read error")
)

type txSpec struct {
	id   byte
	keys []int
}

type scenario struct {
	txs     []txSpec
	workers int
	errKey  int // -1 none
	stopAt  int // main calls Stop before Fetch of tx stopAt; -1 never
}

func (s scenario) String() string {
	return fmt.Sprintf("txs=%v fetchWorkers=%d errKey=%d stopAt=%d", s.txs, s.workers, s.errKey, s.stopAt)
}

func scenarios(thorough bool) []scenario {
	keySets := [][]int{{0}, {1}, {0, 1}, {1, 2}, {0, 1, 2}, {}}
	var out []scenario
	ws := []int{1, 2}
	if thorough {
		ws = []int{1, 2, 3}
	}
	nSets := len(keySets)
	add := func(txs []txSpec) {
		for _, w := range ws {
			for ek := -1; ek < 3; ek++ {
				out = append(out, scenario{txs, w, ek, -1})
			}
			out = append(out, scenario{txs, w, -1, len(txs) - 1})
		}
	}
	// a transaction with more keys than the task queue (capacity = number of transactions)
	// plus the workers can hold: a read error on an early key must fail the fetch, not hang it
	for _, ks := range [][]int{{0, 1, 2, 3}, {0, 1, 2, 3, 4}} {
		add([]txSpec{{1, ks}})
		add([]txSpec{{1, ks}, {2, []int{1}}})
	}
	// duplicate transaction id (same key list)
	for _, ks := range [][]int{{0}, {0, 1}, {0, 1, 2}} {
		add([]txSpec{{1, ks}, {1, ks}})
		if thorough {
			add([]txSpec{{1, ks}, {2, []int{1}}, {1, ks}})
		}
	}
	if !thorough {
		keySets = [][]int{{0}, {0, 1}, {1, 2}, {}}
		nSets = len(keySets)
	}
	// two transactions, all ordered pairs of key sets
	for i := 0; i < nSets; i++ {
		for j := 0; j < nSets; j++ {
			add([]txSpec{{1, keySets[i]}, {2, keySets[j]}})
		}
	}
	// three transactions over a smaller menu
	small := [][]int{{0}, {0, 1}, {1, 2}}
	for _, a := range small {
		for _, b := range small {
			for _, c := range small {
				if thorough || (len(a)+len(b)+len(c) <= 4) {
					add([]txSpec{{1, a}, {2, b}, {3, c}})
				}
			}
		}
	}
	return out
}

type recorder struct {
	mu     sync.Mutex // native: the recorder is harness code and never blocks while holding it
	reads  map[string]int
	errKey string
}

func (r *recorder) GetValue(_ context.Context, k []byte) ([]byte, error) {
	r.mu.Lock()
	r.reads[string(k)]++
	r.mu.Unlock()
	if r.errKey != "" && string(k) == r.errKey {
		return nil, errRead
	}
	if v, ok := parent[string(k)]; ok {
		return v, nil
	}
	return nil, database.ErrNotFound
}

type getObs struct {
	called bool
	m      map[string][]byte
	err    error
}

type obs struct {
	rec      *recorder
	gets     []*getObs
	fetchErr []error
	waitErr  error
}

func build(sc scenario) (func(), func(*vsched.Outcome) (string, string)) {
	var o *obs
	body := func() {
		o = &obs{rec: &recorder{reads: map[string]int{}}}
		if sc.errKey >= 0 {
			o.rec.errKey = keyNames[sc.errKey]
		}
		f := fetcher.New(o.rec, len(sc.txs), sc.workers)
		ctx := context.Background()
		o.gets = make([]*getObs, len(sc.txs))
		o.fetchErr = make([]error, len(sc.txs))
		done := vsched.Make[int](len(sc.txs))
		for i, tx := range sc.txs {
			if sc.stopAt == i {
				f.Stop()
			}
			ks := make([]string, len(tx.keys))
			for j, k := range tx.keys {
				ks[j] = keyNames[k]
			}
			id := ids.ID{tx.id}
			o.gets[i] = &getObs{}
			o.fetchErr[i] = f.Fetch(ctx, id, ks)
			if o.fetchErr[i] != nil {
				vsched.Send(done, i)
				continue
			}
			i := i
			vsched.Go(func() {
				g := o.gets[i]
				g.called = true
				g.m, g.err = f.Get(id)
				vsched.Send(done, i)
			})
		}
		o.waitErr = f.Wait()
		for range sc.txs {
			vsched.Recv(done)
		}
	}
	check := func(out *vsched.Outcome) (string, string) {
		if out.Deadlock {
			return "hang", fmt.Sprintf("fetcher hangs: %v", out.Blocked)
		}
		declared := map[string]bool{}
		for _, tx := range sc.txs {
			for _, k := range tx.keys {
				declared[keyNames[k]] = true
			}
		}
		for k, n := range o.rec.reads {
			if !declared[k] {
				return "undeclared-key-read", fmt.Sprintf("key %q read from parent state but not declared", k)
			}
			if n > 1 {
				// the fetcher deduplicates reads (an efficiency mechanism); the property bounds WHICH keys
				// are read, not how often: counted, not a violation
				dupReads++
			}
		}
		errExpected := sc.errKey >= 0 && declared[keyNames[sc.errKey]]
		stopped := sc.stopAt >= 0
		for i, g := range o.gets {
			if o.fetchErr[i] != nil {
				if !errExpected && !stopped {
					return "fetch-spurious-error", fmt.Sprintf("Fetch(tx %d) returned %v", i, o.fetchErr[i])
				}
				continue
			}
			if !g.called {
				return "harness", "consumer did not run"
			}
			hasErrKey := false
			for _, k := range sc.txs[i].keys {
				if k == sc.errKey {
					hasErrKey = true
				}
			}
			if g.err != nil {
				if !errExpected && !stopped {
					return "get-spurious-error", fmt.Sprintf("Get(tx %d) returned %v without any failing read", i, g.err)
				}
				continue
			}
			if hasErrKey {
				return "read-error-became-absence", fmt.Sprintf("Get(tx %d) succeeded although reading its key %q failed: %v", i, keyNames[sc.errKey], g.m)
			}
			// successful Get: exactly the parent's value or absence for every declared key
			for _, k := range sc.txs[i].keys {
				kn := keyNames[k]
				want, present := parent[kn]
				got, ok := g.m[kn]
				if present != ok || (present && string(got) != string(want)) {
					return "get-differs-from-parent", fmt.Sprintf("Get(tx %d): key %q = %q (present=%v), parent has %q (present=%v)", i, kn, got, ok, want, present)
				}
			}
			if len(g.m) > len(sc.txs[i].keys) {
				return "get-returns-undeclared-key", fmt.Sprintf("Get(tx %d) returned %v", i, g.m)
			}
		}
		if errExpected && !stopped && o.waitErr == nil {
			return "wait-lost-read-error", "a read failed but Wait returned nil"
		}
		if !errExpected && !stopped && o.waitErr != nil {
			return "wait-spurious-error", fmt.Sprintf("Wait returned %v", o.waitErr)
		}
		ks := []string{}
		for k := range o.rec.reads {
			ks = append(ks, k)
		}
		sort.Strings(ks)
		lastSig = fmt.Sprint(ks, o.waitErr)
		for _, g := range o.gets {
			lastSig += fmt.Sprint(g.err != nil, len(g.m), ";")
		}
		return "", ""
	}
	return body, check
}

var lastSig string

// dupReads counts executions in which a declared key was read from the parent more than once.
var dupReads int

func runScenario(i int, sc scenario, r *evid.Run, bound int) evid.ShardResult {
	body, check := build(sc)
	if len(sc.txs) >= 3 {
		bound-- // three consumers: one preemption less (stated in evidence)
	}
	res := evid.ShardResult{Name: sc.String(), Counts: map[string]int{}}
	sigs := map[string]struct{}{}
	ex := &vsched.Explorer{
		Body: body, MaxPreemptions: bound, MaxDeviations: -1, Stop: r.Expired, StopAtFirst: true,
		Check: func(out *vsched.Outcome) (string, string) {
			k, w := check(out)
			if k == "" {
				sigs[lastSig] = struct{}{}
			}
			return k, w
		},
		OnViolation: func(key, what string, choices []int, out *vsched.Outcome) {
			res.Violations = append(res.Violations, evid.ShardViolation{Key: "C24:" + key, What: what + " [" + sc.String() + "]", Replay: map[string]any{"scenario": sc.String(), "scenario_index": i, "choices": choices}})
		},
	}
	if !ex.Run() {
		res.Infra = ex.Diverged
	}
	if !ex.Exhaustive && ex.Violations == 0 {
		res.Capped = "deadline reached inside a scenario"
	}
	res.Counts["executions"] = ex.Executions
	res.Counts["complete"] = ex.Complete
	res.Counts["cut"] = ex.CutRuns
	res.Counts["conflicting"] = ex.Conflicting
	res.Counts["distinct_outcomes"] = len(sigs)
	res.Counts["executions_reading_a_key_more_than_once"] = dupReads
	dupReads = 0
	if len(ex.SampleTraces) > 0 && i%40 == 0 {
		res.Sample = map[string]any{"scenario": sc.String(), "schedule": ex.SampleTraces[len(ex.SampleTraces)-1]}
	}
	return res
}

func main() {
	r := evid.Start("C24", "exploration")
	scs := scenarios(r.Thorough())
	bound := evid.Pick(r, 2, 3)
	if s := os.Getenv("C24_BOUND"); s != "" {
		bound, _ = strconv.Atoi(s)
	}
	if evid.RacePass() {
		iters := evid.Pick(r, 30, 300)
		for i := 0; i < len(scs); i += 3 {
			body, _ := build(scs[i])
			for k := 0; k < iters; k++ {
				body()
			}
		}
		return
	}
	if len(os.Args) > 1 && os.Args[1] == "--list" {
		for i, sc := range scs {
			fmt.Println(i, sc)
		}
		return
	}
	if len(os.Args) > 2 && os.Args[1] == "--one" {
		i, _ := strconv.Atoi(os.Args[2])
		fmt.Printf("%+v\n", runScenario(i, scs[i], r, bound))
		return
	}
	// the key list the processor hands to the fetcher must be exactly the declared keys
	listEvals := 0
	if os.Getenv("VERIF_SHARD") == "" {
		for mask := 0; mask < 8; mask++ {
			ks := state.Keys{}
			for b := 0; b < 3; b++ {
				if mask&(1<<b) != 0 {
					ks.Add(keyNames[b], state.Permissions(1+b))
				}
			}
			got := ks.WithoutPermissions()
			sort.Strings(got)
			want := []string{}
			for k := range ks {
				want = append(want, k)
			}
			sort.Strings(want)
			listEvals++
			if fmt.Sprint(got) != fmt.Sprint(want) {
				r.Violation("C24:fetch-list-differs-from-declared-keys", fmt.Sprintf("declared keys %q but the list handed to the prefetcher is %q", want, got), map[string]any{"declared": want, "list": got})
			}
		}
	}
	tot, _ := r.Sharded(len(scs), func(i int) evid.ShardResult { return runScenario(i, scs[i], r, bound) })
	r.Cov["evaluations"] = tot["executions"]
	r.Cov["distinct_nontrivial"] = tot["conflicting"]
	r.Cov["complete_executions"] = tot["complete"]
	r.Cov["cut_at_visited_state"] = tot["cut"]
	r.Cov["scenarios"] = len(scs)
	r.Cov["distinct_outcomes"] = tot["distinct_outcomes"]
	r.Cov["executions_reading_a_key_more_than_once"] = tot["executions_reading_a_key_more_than_once"]
	r.Cov["preemption_bound"] = bound
	r.Cov["preemption_bound_3tx_scenarios"] = bound - 1
	r.Cov["rule"] = "2-3 transactions with overlapping key lists over 3 keys (one absent in the parent), duplicate transaction ids, 1-2 (3) fetch workers, a read error injected at each key, Stop before the last Fetch; consumer thread per transaction; every interleaving up to the preemption bound (HB-pruned)"
	r.Assumptions = []string{"sequential consistency; data races are the business of the separate -race pass"}
	r.Finish()
}
