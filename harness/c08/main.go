// C08: the parallel executor never runs conflicting tasks concurrently or out of order.
// The real internal/executor (instrumented: every lock, channel, waitgroup and atomic
// operation is a scheduling point) is run under the controlled scheduler; for every task
// list in the scenario space ALL interleavings (up to the preemption bound, with
// happens-before pruning) are enumerated.
package main

import (
	"errors"
	"fmt"
	"os"
	"sort"
	"strconv"
	"strings"

	"github.com/ava-labs/hypersdk/internal/executor"
	"github.com/ava-labs/hypersdk/internal/vshim/evid"
	"github.com/ava-labs/hypersdk/internal/vshim/vsched"
	"github.com/ava-labs/hypersdk/state"
)

type scenario struct {
	perms   [][]state.Permissions // [task][key]
	workers int
	fail    int // index of failing task, -1 none
	stopAt  int // Stop() called before Run of task stopAt (== n: after all runs), -1 never
}

func (s scenario) String() string {
	return fmt.Sprintf("tasks=%v workers=%d fail=%d stopAt=%d", s.perms, s.workers, s.fail, s.stopAt)
}

var keyNames = []string{"k0\x00\x01", "k1\x00\x01", "k2\x00\x01"}

var errTask = errors.New("task failed")

func scenarios(thorough bool) []scenario {
	var out []scenario
	permSet := []state.Permissions{state.None, state.Read, state.Write}
	nKeys := 2
	var lists [][][]state.Permissions
	var gen func(cur [][]state.Permissions, n int)
	gen = func(cur [][]state.Permissions, n int) {
		if len(cur) == n {
			// key-renaming symmetry: keep lists whose key-0 column is >= key-1 column lexicographically
			for t := range cur {
				if cur[t][0] != cur[t][1] {
					if cur[t][0] < cur[t][1] {
						return
					}
					break
				}
			}
			lists = append(lists, append([][]state.Permissions{}, cur...))
			return
		}
		for _, a := range permSet {
			for _, b := range permSet {
				gen(append(cur, []state.Permissions{a, b}), n)
			}
		}
	}
	gen(nil, 3)
	for _, l := range lists {
		out = append(out, scenario{l, 2, -1, -1})
		for f := 0; f < 3; f++ {
			out = append(out, scenario{l, 2, f, -1})
		}
	}
	// Stop at each position, for a representative subset (lists with at least one conflict)
	for i, l := range lists {
		if i%7 != 0 {
			continue
		}
		for st := 0; st <= 3; st++ {
			out = append(out, scenario{l, 2, -1, st})
		}
	}
	// four tasks on ONE key, every read/write pattern (owner, readers that outlive it, a later writer ...)
	for m := 0; m < 16; m++ {
		var l [][]state.Permissions
		for t := 0; t < 4; t++ {
			p := state.Read
			if m>>t&1 == 1 {
				p = state.Write
			}
			l = append(l, []state.Permissions{p, state.None})
		}
		out = append(out, scenario{l, 2, -1, -1})
		if thorough {
			out = append(out, scenario{l, 3, -1, -1}, scenario{l, 2, 0, -1}, scenario{l, 2, 1, -1})
		}
	}
	if thorough {
		// other worker counts
		for _, l := range lists {
			for _, w := range []int{1, 3} {
				out = append(out, scenario{l, w, -1, -1})
				out = append(out, scenario{l, w, 1, -1})
			}
		}
		// Allocate / All permissions, 3 tasks
		permSet = []state.Permissions{state.None, state.Read, state.Allocate, state.All}
		lists = nil
		gen(nil, 3)
		for _, l := range lists {
			out = append(out, scenario{l, 2, -1, -1})
		}
		// 4 tasks over R/W on 2 keys (no symmetric reduction beyond key swap), workers 2
		permSet = []state.Permissions{state.None, state.Read, state.Write}
		lists = nil
		gen(nil, 4)
		for i, l := range lists {
			if i%3 == 0 {
				out = append(out, scenario{l, 2, -1, -1})
			}
		}
	}
	_ = nKeys
	return out
}

type obs struct {
	counts []int
	mons   []*vsched.Monitor
	err    error
}

var crossEvery = 0

// build returns the harness body and its oracle for one scenario.
func build(sc scenario) (func(), func(out *vsched.Outcome) (string, string)) {
	var o *obs
	n := len(sc.perms)
	body := func() {
		o = &obs{counts: make([]int, n)}
		for range keyNames {
			o.mons = append(o.mons, &vsched.Monitor{})
		}
		e := executor.New(n, sc.workers, 1_000_000, nil)
		for i := 0; i < n; i++ {
			if sc.stopAt == i {
				e.Stop()
			}
			i := i
			keys := state.Keys{}
			for k, p := range sc.perms[i] {
				if p != state.None {
					keys[keyNames[k]] = p
				}
			}
			e.Run(keys, func() error {
				o.counts[i]++
				for k, p := range sc.perms[i] {
					if p != state.None {
						o.mons[k].Enter(p != state.Read, i)
					}
				}
				for k, p := range sc.perms[i] {
					if p != state.None {
						o.mons[k].Exit(p != state.Read)
					}
				}
				if sc.fail == i {
					return errTask
				}
				return nil
			})
		}
		if sc.stopAt == n {
			e.Stop()
		}
		o.err = e.Wait()
	}
	conflict := func(i, j int) bool {
		for k := range sc.perms[i] {
			a, b := sc.perms[i][k], sc.perms[j][k]
			if a != state.None && b != state.None && (a != state.Read || b != state.Read) {
				return true
			}
		}
		return false
	}
	check := func(out *vsched.Outcome) (string, string) {
		if out.Deadlock {
			return "deadlock", fmt.Sprintf("no runnable thread before Wait returned: %v", out.Blocked)
		}
		for i, c := range o.counts {
			if c > 1 {
				return "task-ran-twice", fmt.Sprintf("task %d ran %d times", i, c)
			}
			if c == 0 && sc.fail == -1 && sc.stopAt == -1 {
				return "task-skipped", fmt.Sprintf("task %d never ran although nothing failed and the executor was not stopped", i)
			}
		}
		for k, m := range o.mons {
			if m.Conflict {
				return "conflicting-tasks-overlapped", fmt.Sprintf("two tasks sharing key %d (at least one with more than read access) ran concurrently; entries %v", k, m.Log)
			}
			// queue order among conflicting entries
			for a := 0; a < len(m.Log); a++ {
				for b := a + 1; b < len(m.Log); b++ {
					if (m.Log[a].Write || m.Log[b].Write) && m.Log[a].Tag > m.Log[b].Tag {
						return "conflicting-tasks-out-of-order", fmt.Sprintf("key %d: task %d ran before task %d", k, m.Log[a].Tag, m.Log[b].Tag)
					}
				}
			}
		}
		failedRan := sc.fail >= 0 && o.counts[sc.fail] == 1
		if failedRan {
			for j := sc.fail + 1; j < n; j++ {
				if conflict(sc.fail, j) && o.counts[j] != 0 {
					return "ran-after-conflicting-failure", fmt.Sprintf("task %d ran although the earlier conflicting task %d had failed", j, sc.fail)
				}
			}
		}
		switch {
		case failedRan && sc.stopAt >= 0:
			if !errors.Is(o.err, errTask) && !errors.Is(o.err, executor.ErrStopped) {
				return "wait-wrong-error", fmt.Sprintf("Wait returned %v", o.err)
			}
		case failedRan:
			if !errors.Is(o.err, errTask) {
				return "wait-lost-error", fmt.Sprintf("task %d failed but Wait returned %v", sc.fail, o.err)
			}
		case sc.stopAt >= 0:
			if !errors.Is(o.err, executor.ErrStopped) {
				return "wait-lost-stop", fmt.Sprintf("executor stopped but Wait returned %v", o.err)
			}
		default:
			if o.err != nil {
				return "wait-spurious-error", fmt.Sprintf("Wait returned %v", o.err)
			}
		}
		return "", ""
	}
	return body, func(out *vsched.Outcome) (string, string) {
		k, w := check(out)
		lastSig = fmt.Sprint(o.counts, o.err, out.Deadlock)
		for _, m := range o.mons {
			// order of conflicting entries only (reads commute)
			lastSig += fmt.Sprint(m.Conflict, "|")
			// the SET of ordered conflicting pairs: the position of two reads relative to each other
			// must not show (the happens-before pruning rightly merges such executions)
			var pairs []string
			for a := 0; a < len(m.Log); a++ {
				for b := a + 1; b < len(m.Log); b++ {
					if m.Log[a].Write || m.Log[b].Write {
						pairs = append(pairs, fmt.Sprint(m.Log[a].Tag, "<", m.Log[b].Tag))
					}
				}
			}
			sort.Strings(pairs)
			lastSig += strings.Join(pairs, ",")
		}
		return k, w
	}
}

var lastSig string

func runScenario(scIndex int, sc scenario, r *evid.Run, bound int) evid.ShardResult {
	body, baseCheck := build(sc)
	res := evid.ShardResult{Name: sc.String(), Counts: map[string]int{}}
	sigs := map[string]struct{}{}
	check := func(out *vsched.Outcome) (string, string) {
		k, w := baseCheck(out)
		sigs[lastSig] = struct{}{}
		return k, w
	}
	if crossEvery > 0 && scIndex%crossEvery == 0 {
		// pruning cross-check: the set of observation signatures with and without the
		// visited-state cut must be equal
		exN := &vsched.Explorer{Body: body, Check: check, MaxPreemptions: bound, MaxDeviations: -1, NoPrune: true, Stop: r.Expired}
		exN.Run()
		unpruned := sigs
		sigs = map[string]struct{}{}
		exP := &vsched.Explorer{Body: body, Check: check, MaxPreemptions: bound, MaxDeviations: -1, Stop: r.Expired}
		exP.Run()
		if exN.Exhaustive && exP.Exhaustive {
			for k := range unpruned {
				if _, ok := sigs[k]; !ok {
					res.Infra = "pruning cross-check failed: outcome reachable without pruning is missed with pruning: " + k
				}
			}
			res.Counts["crosschecked_scenarios"] = 1
			res.Counts["crosscheck_unpruned_executions"] = exN.Executions
			res.Counts["crosscheck_pruned_executions"] = exP.Executions
		}
		sigs = map[string]struct{}{}
	}
	ex := &vsched.Explorer{
		Body: body, Check: check, MaxPreemptions: bound, MaxDeviations: -1, Stop: r.Expired,
		OnViolation: func(key, what string, choices []int, out *vsched.Outcome) {
			if len(res.Violations) < 3 {
				res.Violations = append(res.Violations, evid.ShardViolation{Key: "C08:" + key, What: what + " [" + sc.String() + "]", Replay: map[string]any{"scenario": sc.String(), "choices": choices}})
			}
		},
	}
	if !ex.Run() {
		res.Infra = ex.Diverged
	}
	if !ex.Exhaustive {
		res.Capped = "deadline reached inside a scenario"
	}
	res.Counts["executions"] = ex.Executions
	res.Counts["distinct_outcomes"] = len(sigs)
	res.Counts["complete"] = ex.Complete
	res.Counts["cut"] = ex.CutRuns
	res.Counts["conflicting"] = ex.Conflicting
	if ex.MaxPoints > 0 {
		res.Counts["maxpoints_sum"] = ex.MaxPoints
	}
	if len(ex.SampleTraces) > 0 {
		res.Sample = map[string]any{"scenario": sc.String(), "schedule": ex.SampleTraces[len(ex.SampleTraces)-1]}
	}
	return res
}

func main() {
	r := evid.Start("C08", "exploration")
	scs := scenarios(r.Thorough())
	bound := evid.Pick(r, 2, 3)
	if s := os.Getenv("C08_BOUND"); s != "" {
		bound, _ = strconv.Atoi(s)
	}
	crossEvery = evid.Pick(r, 97, 23)
	if evid.RacePass() {
		// free-running -race pass: same bodies, native primitives
		iters := evid.Pick(r, 40, 400)
		for i := 0; i < len(scs); i += 7 {
			body, _ := build(scs[i])
			for k := 0; k < iters; k++ {
				body()
			}
		}
		return
	}
	if len(os.Args) > 2 && os.Args[1] == "--one" {
		i, _ := strconv.Atoi(os.Args[2])
		res := runScenario(i, scs[i], r, bound)
		fmt.Printf("%+v\n", res)
		return
	}
	tot, _ := r.Sharded(len(scs), func(i int) evid.ShardResult { return runScenario(i, scs[i], r, bound) })
	r.Cov["evaluations"] = tot["executions"]
	r.Cov["distinct_nontrivial"] = tot["conflicting"]
	r.Cov["complete_executions"] = tot["complete"]
	r.Cov["cut_at_visited_state"] = tot["cut"]
	r.Cov["scenarios"] = len(scs)
	r.Cov["distinct_outcomes"] = tot["distinct_outcomes"]
	r.Cov["pruning_crosscheck"] = map[string]int{"scenarios": tot["crosschecked_scenarios"], "unpruned_executions": tot["crosscheck_unpruned_executions"], "pruned_executions": tot["crosscheck_pruned_executions"]}
	r.Cov["preemption_bound"] = bound
	r.Cov["rule"] = "every task list (3 tasks x 2 keys x {none,read,write}, modulo key renaming; failing task at each position; Stop at each position for a subset; plus every read/write pattern of 4 tasks on one key; thorough: workers 1..3, allocate/all permissions, 4 tasks over 2 keys) x every interleaving of the instrumented executor up to the preemption bound with happens-before fingerprint pruning; non-trivial = complete executions in which >=2 threads touched a common synchronisation object"
	r.Assumptions = []string{"sequential consistency; unsynchronised accesses are the business of the separate -race pass", "map iteration inside the executor is made deterministic (ascending keys)"}
	r.Finish()
}
