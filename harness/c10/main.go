// C10: transactions execute only inside their validity interval and on their chain.
// Complete boundary grids through VerifyTimestamp, Transaction.PreExecute, the admission
// PreExecutor (frozen clock) and Processor.Execute, against the predicate of the statement
// evaluated in math/big.
package main

import (
	"fmt"
	"math/big"

	"github.com/ava-labs/avalanchego/ids"

	"github.com/ava-labs/hypersdk/chain"
	"github.com/ava-labs/hypersdk/fees"
	ifees "github.com/ava-labs/hypersdk/internal/fees"
	"github.com/ava-labs/hypersdk/internal/validitywindow"
	"github.com/ava-labs/hypersdk/internal/validitywindow/validitywindowtest"
	"github.com/ava-labs/hypersdk/internal/vshim/evid"
	"github.com/ava-labs/hypersdk/internal/vshim/vsched"
	"github.com/ava-labs/hypersdk/internal/workers"
	"github.com/ava-labs/hypersdk/verifh/rig"
)

func inWindow(expiry, ts, window int64) bool {
	if expiry%1000 != 0 {
		return false
	}
	e, t, w := big.NewInt(expiry), big.NewInt(ts), big.NewInt(window)
	return e.Cmp(t) >= 0 && e.Cmp(new(big.Int).Add(t, w)) <= 0
}

func active(start, end, ts int64) bool {
	if start >= 0 && ts < start {
		return false
	}
	if end >= 0 && ts > end {
		return false
	}
	return true
}

func main() {
	r := evid.Start("C10", "exploration")
	evals, nontriv := 0, 0
	// ---- (1) the validity interval
	base := []int64{0, 1, 999, 1000, 1001, 2000, 59_000, 60_000, 61_000, 1_000_000, 1 << 40, 1 << 62}
	var vals []int64
	for _, b := range base {
		vals = append(vals, b, -b, b-1, b+1, b-1000, b+1000)
	}
	windows := []int64{0, 1, 999, 1000, 1001, 60_000, 1 << 40, 1 << 62}
	if r.Thorough() {
		for _, b := range base {
			vals = append(vals, b+60_000, b-60_000, b+59_000, b+61_000)
		}
	}
	for _, exp := range vals {
		for _, ts := range vals {
			for _, w := range windows {
				evals++
				err := validitywindow.VerifyTimestamp(exp, ts, 1000, w)
				want := inWindow(exp, ts, w)
				if (err == nil) != want {
					kind := "accepts-outside-interval"
					if want {
						kind = "rejects-inside-interval"
					}
					r.Violation("C10:timestamp:"+kind, fmt.Sprintf("expiry %d, block timestamp %d, window %d: err=%v, expected valid=%v", exp, ts, w, err, want), map[string]any{"expiry": exp, "ts": ts, "window": w})
				}
				if want {
					nontriv++
				}
			}
		}
	}
	r.Sample(map[string]any{"expiry": 61000, "blockTimestamp": 1000, "window": 60000, "valid": true})
	// ---- (2) Transaction.PreExecute and (3) admission / (4) block verification, at a whole-second and at
	// a mid-second time, under action limits 16 and 255
	totalCases := 0
	for _, cfg := range []struct {
		ts         int64
		maxActions uint8
		bigCounts  []int
	}{{10_000, 16, []int{255, 256, 257, 272, 512}}, {10_500, 16, nil}, {10_000, 255, []int{254, 255, 256, 257, 511, 512}}} {
		ts, maxActions, bigCounts := cfg.ts, cfg.maxActions, cfg.bigCounts
		vsched.FreezeClock(ts)
		rules := rig.DefaultRules()
		rules.MaxActionsPerTx = maxActions
		rules.ValidityWindow = 5_000
		rules.ChainID = ids.ID{9}
		wrongChain := ids.ID{8}
		vw := &validitywindowtest.MockTimeValidityWindow[*chain.Transaction]{}
		rng := []int64{-1, -7, ts - 1, ts, ts + 1, 0}
		mkActions := func(n int, s, e int64) []chain.Action {
			var as []chain.Action
			for i := 0; i < n; i++ {
				a := &rig.OpAction{Compute: 1, Nonce: uint64(i), Start: -1, End: -1}
				if i == n-1 {
					a.Start, a.End = s, e // the last action carries the activation range
				}
				as = append(as, a)
			}
			return as
		}
		type txCase struct {
			n       int
			as, ae  int64
			us, ue  int64
			chainOK bool
			expiry  int64
		}
		var cases []txCase
		for _, n := range []int{1, 15, 16, 17} {
			for _, chainOK := range []bool{true, false} {
				for _, exp := range []int64{ts - 1000, ts, 10_000, 10_001, 11_000, 15_000, 16_000} {
					cases = append(cases, txCase{n, -1, -1, -1, -1, chainOK, exp})
				}
			}
		}
		// counts that wrap when narrowed to 8 or 9 bits
		for _, n := range bigCounts {
			cases = append(cases, txCase{n, -1, -1, -1, -1, true, 12_000})
		}
		for _, as := range rng {
			for _, ae := range rng {
				cases = append(cases, txCase{2, as, ae, -1, -1, true, 12_000})
				cases = append(cases, txCase{2, -1, -1, as, ae, true, 12_000})
				if r.Thorough() {
					for _, us := range rng {
						for _, ue := range rng {
							cases = append(cases, txCase{1, as, ae, us, ue, true, 12_000})
						}
					}
				}
			}
		}
		cases = append(cases, txCase{0, -1, -1, -1, -1, true, 12_000})
		totalCases += len(cases)
		for _, c := range cases {
			env := rig.NewEnv(rig.EnvConfig{Rules: rules, Balances: []uint64{1 << 50}, Height: 5, Timestamp: ts - 1000})
			cid := rules.ChainID
			if !c.chainOK {
				cid = wrongChain
			}
			tx := env.MakeTx(0, mkActions(c.n, c.as, c.ae), ts, rig.TxOpts{Expiry: c.expiry, ChainID: &cid, HasAuthRng: true, AuthStart: c.us, AuthEnd: c.ue})
			want := c.chainOK && inWindow(c.expiry, ts, rules.ValidityWindow) && c.n <= int(rules.MaxActionsPerTx) &&
				(c.n == 0 || active(c.as, c.ae, ts)) && active(c.us, c.ue, ts)
			rep := map[string]any{"actions": c.n, "actionRange": []int64{c.as, c.ae}, "authRange": []int64{c.us, c.ue}, "chainIDMatches": c.chainOK, "expiry": c.expiry, "timestamp": ts, "window": rules.ValidityWindow}
			// (2)
			evals++
			fm := ifees.NewManager(nil)
			for d := fees.Dimension(0); d < fees.FeeDimensions; d++ {
				fm.SetUnitPrice(d, 1)
			}
			perr := tx.PreExecute(rig.Ctx, fm, env.BH, env.Rules, env.DB, ts)
			report := func(path string, err error) {
				if (err == nil) != want {
					kind := "executes-outside-validity"
					if want {
						kind = "rejects-valid"
					}
					r.Violation("C10:"+path+":"+kind, fmt.Sprintf("%s: err=%v, expected executable=%v for %v", path, err, want, rep), rep)
				}
			}
			report("preexecute", perr)
			// (3) admission at the same (frozen) time
			evals++
			report("admission", env.NewPreExecutor(vw).PreExecute(rig.Ctx, env.ParentOutput(5, ts-1000).ExecutionBlock, env.DB, tx))
			// (4) a block with this transaction at that timestamp
			evals++
			blk := env.MakeBlock(env.DB, ids.Empty, 6, ts, []*chain.Transaction{tx})
			_, verr := env.NewProcessor(1, 1, workers.NewSerial(), vw, nil).Execute(rig.Ctx, env.DB, blk, true)
			report("block", verr)
			if !want {
				nontriv += 3
			}
		}
	}
	r.Sample(map[string]any{"actions": 17, "limit": 16, "executable": false})
	r.Cov["evaluations"] = evals
	r.Cov["distinct_nontrivial"] = nontriv
	r.Cov["rule"] = fmt.Sprintf("(1) VerifyTimestamp over %d expiry x %d block-timestamp boundary values (incl. negatives, +-1, +-1s) x %d windows; (2-4) %d transactions at clock 10.000 s and 10.500 s (action counts 0,1,15,16,17 and 254..257, 272, 511, 512 under limits 16 and 255; expiry around the interval; chain id ok/wrong; action and auth activation ranges over {-1,-7,0,ts-1,ts,ts+1}^2) through Transaction.PreExecute, PreExecutor.PreExecute at a frozen clock and Processor.Execute; non-trivial = valid interval triples / rejected transactions", len(vals), len(vals), len(windows), totalCases)
	r.Assumptions = []string{"|values| <= 2^62+1000 (no int64 overflow of timestamp + window)", "negative activation bounds mean 'no bound' (the -1 sentinel of the interface)"}
	r.Finish()
}
