// C31: the indexer serves exactly the recent accepted blocks and transaction results.
//
// Explicit-state search over notification histories on the real Indexer (pebble in a scratch
// directory): notify(next height), notify(height+gap) (what a node sees after state sync),
// redelivery of the latest block(s) (at-least-once delivery after a crash), close+reopen at
// any point; windows {1,2,3}; blocks with 0-2 transactions. Reference: the delivered blocks
// whose height lies in (last-window, last]. After EVERY step, for every height up to the
// maximum and every transaction ever delivered: block by height / by id, transaction +
// timestamp + result, latest block must be exactly the reference's answer (found with the
// right content, or not found). Restarts must not change any answer.
package main

import (
	"context"
	"fmt"
	"os"
	"path/filepath"
	"strings"

	"github.com/ava-labs/avalanchego/ids"

	"github.com/ava-labs/hypersdk/api/indexer"
	"github.com/ava-labs/hypersdk/chain"
	"github.com/ava-labs/hypersdk/chain/chaintest"
	"github.com/ava-labs/hypersdk/fees"
	"github.com/ava-labs/hypersdk/internal/vshim/evid"
	"github.com/ava-labs/hypersdk/internal/vshim/seqx"
	"github.com/ava-labs/hypersdk/verifh/rig"
)

const maxHeight = 9

var (
	env    = rig.NewEnvLite(nil, nil)
	parser = chaintest.NewTestParser()
)

// mkBlocks builds a fresh set of executed blocks (the encoder caches sizes inside the
// objects, so executions running in parallel must not share them).
func mkBlocks() [maxHeight + 1]*chain.ExecutedBlock {
	var blocks [maxHeight + 1]*chain.ExecutedBlock
	parent := ids.ID{0xaa}
	for h := 1; h <= maxHeight; h++ {
		ntx := h % 3 // 1,2,0,1,2,0...
		var txs []*chain.Transaction
		var res []*chain.Result
		for i := 0; i < ntx; i++ {
			a := &chaintest.TestAction{NumComputeUnits: 1, SpecifiedStateKeys: []string{}, ReadKeys: [][]byte{}, WriteKeys: [][]byte{}, WriteValues: [][]byte{}, Nonce: uint64(h*10 + i), Start: -1, End: -1}
			au := &chaintest.TestAuth{NumComputeUnits: 1, ActorAddress: rig.Addr(0), SponsorAddress: rig.Addr(0), Start: -1, End: -1}
			tx, err := chain.NewTransaction(chain.Base{Timestamp: int64(h) * 1000, ChainID: ids.ID{7}, MaxFee: 10}, []chain.Action{a}, au)
			if err != nil {
				panic(err)
			}
			txs = append(txs, tx)
			res = append(res, &chain.Result{Success: i%2 == 0, Error: []byte{}, Outputs: [][]byte{{byte(h), byte(i)}}, Units: fees.Dimensions{1, 2, 3, 4, uint64(h)}, Fee: uint64(h*100 + i)})
		}
		sb, err := chain.NewStatelessBlock(parent, int64(h)*1000+7, uint64(h), txs, ids.ID{byte(h)}, nil)
		if err != nil {
			panic(err)
		}
		blocks[h] = chain.NewExecutedBlock(sb, res, fees.Dimensions{1, 1, 1, 1, 1}, fees.Dimensions{uint64(h), 0, 0, 0, 0})
		parent = sb.GetID()
	}
	return blocks
}

var windows = []uint64{1, 2, 3, 5}

type opKind int

const (
	oNext opKind = iota
	oGap2
	oGap4
	oRedeliverLast
	oRedeliverLast2 // last-1 then last again (ascending re-delivery of the tail)
	oRestart
)

var opNames = []string{"notify(next)", "notify(height+2)", "notify(height+4)", "redeliver(last)", "redeliver(last-1,last)", "close+reopen"}

func hist(h []int) []string {
	var o []string
	for i, x := range h {
		if i == 0 {
			o = append(o, fmt.Sprintf("window=%d", windows[x]))
		} else {
			o = append(o, opNames[x])
		}
	}
	return o
}

var scratch string

func exec(h []int) (res seqx.Result) {
	if len(h) == 0 {
		return seqx.Result{Key: "root", Enabled: []int{0, 1, 2, 3}}
	}
	window := windows[h[0]]
	blocks := mkBlocks()
	dir, err := os.MkdirTemp(scratch, "ix")
	if err != nil {
		evid.Infra("tmp: %v", err)
	}
	defer os.RemoveAll(dir)
	viol := func(k, w string) seqx.Result {
		return seqx.Result{Violation: &seqx.Violation{Key: "C31:" + k, What: w}}
	}
	ix, err := indexer.NewIndexer(dir, parser, window)
	if err != nil {
		return viol("open-failed", err.Error())
	}
	defer func() { _ = ix.Close() }()
	ctx := context.Background()
	delivered := map[uint64]bool{}
	last := uint64(0)
	seen2 := false // at least two blocks delivered
	prevDelivered := uint64(0)
	outcome := ""
	for step, x := range h[1:] {
		switch opKind(x) {
		case oNext, oGap2, oGap4:
			nh := last + map[opKind]uint64{oNext: 1, oGap2: 2, oGap4: 4}[opKind(x)]
			if err := ix.Notify(ctx, blocks[nh]); err != nil {
				return viol("notify-failed", fmt.Sprintf("step %d: %v", step, err))
			}
			if last != 0 {
				seen2 = true
				prevDelivered = last
			}
			delivered[nh] = true
			last = nh
			outcome = opNames[x]
		case oRedeliverLast:
			if err := ix.Notify(ctx, blocks[last]); err != nil {
				return viol("notify-failed", fmt.Sprintf("step %d: %v", step, err))
			}
			outcome = "redeliver"
		case oRedeliverLast2:
			for _, hh := range []uint64{prevDelivered, last} {
				if err := ix.Notify(ctx, blocks[hh]); err != nil {
					return viol("notify-failed", fmt.Sprintf("step %d: %v", step, err))
				}
			}
			outcome = "redeliver2"
		case oRestart:
			if err := ix.Close(); err != nil {
				return viol("close-failed", err.Error())
			}
			ix, err = indexer.NewIndexer(dir, parser, window)
			if err != nil {
				return viol("reopen-failed", fmt.Sprintf("step %d: %v", step, err))
			}
			outcome = "restart"
		}
		// ---- oracle: every query, every height, every transaction
		name := strings.Join(hist(h[:step+2]), "; ")
		if last == 0 {
			if _, err := ix.GetLatestBlock(); err == nil {
				return viol("latest-before-any-block", name)
			}
			continue
		}
		lb, err := ix.GetLatestBlock()
		if err != nil || lb.Block.Hght != last {
			return viol("latest-block-wrong", fmt.Sprintf("after [%s]: GetLatestBlock = %v,%v expected height %d", name, hOf(lb), err, last))
		}
		for hh := uint64(1); hh <= maxHeight; hh++ {
			want := delivered[hh] && hh+window > last && hh <= last
			b := blocks[hh]
			got, err := ix.GetBlockByHeight(hh)
			got2, err2 := ix.GetBlock(b.Block.GetID())
			okH := err == nil && got != nil && got.Block.GetID() == b.Block.GetID()
			okI := err2 == nil && got2 != nil && got2.Block.GetID() == b.Block.GetID()
			if want && (!okH || !okI) {
				return viol("window-block-not-served", fmt.Sprintf("after [%s]: block %d is inside the window (last %d, window %d) but by-height=%v by-id=%v", name, hh, last, window, err, err2))
			}
			if !want && (err == nil || err2 == nil) {
				k := "stale-block-served"
				if !delivered[hh] {
					k = "never-delivered-block-served"
				}
				return viol(k, fmt.Sprintf("after [%s]: block %d is outside the window (last %d, window %d) but is served (by-height err=%v, by-id err=%v)", name, hh, last, window, err, err2))
			}
			for ti, tx := range b.Block.Txs {
				found, gtx, ts, res, err := ix.GetTransaction(tx.GetID())
				if err != nil {
					return viol("get-transaction-error", fmt.Sprintf("after [%s]: %v", name, err))
				}
				if want {
					if !found || gtx.GetID() != tx.GetID() || ts != b.Block.Tmstmp || res == nil || res.Fee != b.ExecutionResults.Results[ti].Fee || res.Success != b.ExecutionResults.Results[ti].Success {
						return viol("window-transaction-not-served", fmt.Sprintf("after [%s]: transaction %d of block %d: found=%v ts=%d", name, ti, hh, found, ts))
					}
				} else if found {
					return viol("stale-transaction-served", fmt.Sprintf("after [%s]: transaction %d of block %d (outside the window: last %d, window %d) is still served", name, ti, hh, last, window))
				}
			}
		}
	}
	var en []int
	if last+1 <= maxHeight-1 {
		en = append(en, int(oNext))
	}
	if last+2 <= maxHeight-1 && last > 0 {
		en = append(en, int(oGap2))
	}
	if last+4 <= maxHeight-1 && last > 0 {
		en = append(en, int(oGap4))
	}
	if last > 0 && len(h) > 1 && opKind(h[len(h)-1]) != oRedeliverLast {
		en = append(en, int(oRedeliverLast))
	}
	if seen2 && opKind(h[len(h)-1]) != oRedeliverLast2 {
		en = append(en, int(oRedeliverLast2))
	}
	if len(h) > 1 && opKind(h[len(h)-1]) != oRestart {
		en = append(en, int(oRestart))
	}
	return seqx.Result{Key: fmt.Sprintf("w%d|prev%d|%s", window, prevDelivered, ix.VerifDump()), Enabled: en, Outcome: outcome}
}

func hOf(b *chain.ExecutedBlock) any {
	if b == nil {
		return nil
	}
	return b.Block.Hght
}

func main() {
	r := evid.Start("C31", "model_checking")
	var err error
	scratch, err = os.MkdirTemp("", "verif-c31-")
	if err != nil {
		evid.Infra("%v", err)
	}
	defer os.RemoveAll(scratch)
	evid.CleanupDir(scratch)
	_ = filepath.Join
	if p := evid.ReplayPayload(); p != nil {
		var h []int
		for _, x := range p["ops"].([]any) {
			h = append(h, int(x.(float64)))
		}
		res := exec(h)
		fmt.Println("replay", hist(h))
		os.RemoveAll(scratch)
		if res.Violation != nil {
			fmt.Println("  violation:", res.Violation.Key, res.Violation.What)
			os.Exit(1)
		}
		fmt.Println("  held")
		os.Exit(0)
	}
	depth := evid.Pick(r, 6, 8)
	nw := 0
	fmt.Sscan(os.Getenv("C31_WORKERS"), &nw)
	s := &seqx.Search{Exec: exec, MaxDepth: depth, Stop: r.Expired, Workers: nw,
		OnViolation: func(h []int, v *seqx.Violation) {
			r.Violation(v.Key, v.What, map[string]any{"history": hist(h), "ops": h})
		}}
	st := s.Run()
	os.RemoveAll(scratch)
	if !st.Complete {
		r.Cap("deadline reached before the depth bound")
	}
	for _, h := range st.Samples {
		r.Sample(hist(h))
	}
	r.Cov["states"] = st.States
	r.Cov["transitions"] = st.Transitions
	r.Cov["traces_validated_against_impl"] = st.Transitions
	r.Cov["max_depth"] = st.MaxDepth
	r.Cov["distinct_outcomes"] = len(st.Outcomes)
	r.Cov["frontier_unexpanded_at_bound"] = st.Frontier
	r.Cov["bounds"] = map[string]any{"depth_incl_window_choice": depth, "windows": windows, "ops": len(opNames), "max_height": maxHeight}
	r.Cov["explanation"] = "every transition runs the real Indexer on pebble in a fresh scratch directory with the history replayed; state key = window + private caches + heights on disk; after every step all queries for all heights and all transactions are compared with the reference"
	r.Assumptions = []string{"accepted blocks are delivered in ascending order; redelivery repeats the latest block or the latest two in ascending order (at-least-once delivery after a crash)", "heights <= 9, windows {1,2,3,5} (5 > the first heights, so gaps below the window occur), 0-2 transactions per block"}
	r.Finish()
}
