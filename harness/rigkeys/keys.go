// Package rigkeys provides deterministic private keys / auth factories for the three
// signature schemes (nothing in /verif is random).
package rigkeys

import (
	stded "crypto/ed25519"
	"crypto/sha256"

	"github.com/ava-labs/hypersdk/auth"
	"github.com/ava-labs/hypersdk/chain"
	"github.com/ava-labs/hypersdk/crypto/bls"
	"github.com/ava-labs/hypersdk/crypto/ed25519"
	"github.com/ava-labs/hypersdk/crypto/secp256r1"
)

func seed(scheme string, i int) []byte {
	h := sha256.Sum256([]byte{byte(len(scheme)), scheme[0], byte(i), 0x5a})
	return h[:]
}

// ED returns the i-th deterministic ed25519 private key.
func ED(i int) ed25519.PrivateKey {
	return ed25519.PrivateKey(stded.NewKeyFromSeed(seed("ed25519", i)))
}

// SECP returns the i-th deterministic secp256r1 private key.
func SECP(i int) secp256r1.PrivateKey {
	var k secp256r1.PrivateKey
	copy(k[:], seed("secp256r1", i))
	k[0] &= 0x7f // below the group order
	return k
}

// BLS returns the i-th deterministic BLS private key.
func BLS(i int) *bls.PrivateKey {
	s := seed("bls", i)
	s[0] &= 0x3f // below the scalar field order
	k, err := bls.PrivateKeyFromBytes(s)
	if err != nil {
		panic(err)
	}
	return k
}

// Schemes in a fixed order.
var Schemes = []string{"ed25519", "secp256r1", "bls"}

// Factory returns the auth factory of key i of the given scheme.
func Factory(scheme string, i int) chain.AuthFactory {
	switch scheme {
	case "ed25519":
		return auth.NewED25519Factory(ED(i))
	case "secp256r1":
		return auth.NewSECP256R1Factory(SECP(i))
	case "bls":
		return auth.NewBLSFactory(BLS(i))
	}
	panic("unknown scheme " + scheme)
}
