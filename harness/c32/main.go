// C32: pubsub message batching delivers in order within the size limit.
//
// The real MessageBuffer (instrumented: mutex, queue channel, timer replaced by a controlled
// timer whose firing is a scheduling decision) under the controlled scheduler: a sender thread
// sends a sequence of messages with sizes at and around the limit, the timer thread may fire
// at any point, Close happens after the sends or concurrently from another thread, and a
// consumer drains the queue. Every interleaving is explored. Oracle: every emitted batch
// encodes to at most the configured maximum and decodes; the decoded concatenation equals the
// accepted messages, in order, exactly once (a subsequence of them when the queue can be
// full).
package main

import (
	"bytes"
	"errors"
	"fmt"
	"os"
	"strings"
	"time"

	"github.com/ava-labs/avalanchego/utils/logging"

	"github.com/ava-labs/hypersdk/internal/vshim/evid"
	"github.com/ava-labs/hypersdk/internal/vshim/vsched"
	"github.com/ava-labs/hypersdk/pubsub"
)

// maxSize is set per scenario: 12 (one-byte length prefixes) or 270 (messages of 128+ bytes carry a
// two-byte length prefix)
var maxSize = 12

type scenario struct {
	max        int
	sizes      []int
	queueCap   int
	closer     bool // Close from a second thread, concurrently with the sends
	consumer   bool // a consumer thread drains the queue concurrently (else after Close)
}

func (s scenario) String() string {
	return fmt.Sprintf("sizes=%v queueCap=%d concurrentClose=%v concurrentConsumer=%v maxSize=%d", s.sizes, s.queueCap, s.closer, s.consumer, s.max)
}

type obs struct {
	accepted [][]byte
	tooLarge int
	closedRefusals int
	batches  [][]byte
	closeErr error
}

func msg(i, n int) []byte {
	b := bytes.Repeat([]byte{byte('a' + i)}, n)
	return b
}

func body(sc scenario, o **obs) func() {
	return func() {
		ob := &obs{}
		*o = ob
		maxSize = sc.max
		mb := pubsub.NewMessageBuffer(logging.NoLog{}, sc.queueCap, maxSize, time.Second)
		done := vsched.Make[struct{}](1)
		if sc.consumer {
			vsched.Go(func() {
				for {
					b, ok := vsched.Recv2(mb.Queue)
					if !ok {
						break
					}
					ob.batches = append(ob.batches, b)
				}
				vsched.Send(done, struct{}{})
			})
		}
		closed := vsched.Make[struct{}](1)
		if sc.closer {
			vsched.Go(func() {
				ob.closeErr = mb.Close()
				vsched.Send(closed, struct{}{})
			})
		}
		for i, n := range sc.sizes {
			m := msg(i, n)
			err := mb.Send(m)
			switch {
			case err == nil:
				ob.accepted = append(ob.accepted, m)
			case errors.Is(err, pubsub.ErrMessageTooLarge):
				ob.tooLarge++
			case errors.Is(err, pubsub.ErrClosed):
				ob.closedRefusals++
			default:
				panic(err)
			}
		}
		if sc.closer {
			vsched.Recv(closed)
		} else {
			ob.closeErr = mb.Close()
		}
		if sc.consumer {
			vsched.Recv(done)
		} else {
			for {
				b, ok := vsched.Recv2(mb.Queue)
				if !ok {
					break
				}
				ob.batches = append(ob.batches, b)
			}
		}
	}
}

func check(sc scenario, ob *obs, out *vsched.Outcome) (string, string) {
	maxSize = sc.max
	if out.Deadlock {
		return "deadlock", fmt.Sprintf("%v", out.Blocked)
	}
	if ob.closeErr != nil {
		return "close-error", ob.closeErr.Error()
	}
	var got [][]byte
	for bi, b := range ob.batches {
		if len(b) > maxSize {
			return "batch-exceeds-max-size", fmt.Sprintf("emitted batch %d encodes to %d bytes, configured maximum %d (accepted message sizes %v)", bi, len(b), maxSize, sizesOf(ob.accepted))
		}
		ms, err := pubsub.ParseBatchMessage(b)
		if err != nil {
			return "batch-does-not-decode", fmt.Sprintf("batch %d (%x): %v", bi, b, err)
		}
		got = append(got, ms...)
	}
	// the queue can only be full if more batches can be pending than it holds and nobody drains
	mayDrop := len(sc.sizes)+1 > sc.queueCap
	if !mayDrop {
		if len(got) != len(ob.accepted) {
			return "messages-lost-or-duplicated", fmt.Sprintf("accepted %d messages %v, emitted %d %v (queue capacity %d was never reached)", len(ob.accepted), sizesOf(ob.accepted), len(got), sizesOf(got), sc.queueCap)
		}
	}
	// got must be a subsequence of accepted (in order, no duplicates)
	j := 0
	for _, g := range got {
		for j < len(ob.accepted) && !bytes.Equal(ob.accepted[j], g) {
			j++
		}
		if j == len(ob.accepted) {
			return "messages-reordered-or-duplicated", fmt.Sprintf("emitted %q is not an in-order subsequence of the accepted %q", got, ob.accepted)
		}
		j++
	}
	return "", ""
}

func sizesOf(ms [][]byte) []int {
	var o []int
	for _, m := range ms {
		o = append(o, len(m))
	}
	return o
}

func scenarios(thorough bool) []scenario {
	alphabet := []int{0, 1, maxSize / 2, maxSize - 3, maxSize - 2, maxSize - 1, maxSize, maxSize + 1}
	var seqs [][]int
	var rec func(cur []int)
	maxLen := 3
	if thorough {
		maxLen = 4
	}
	rec = func(cur []int) {
		if len(cur) > 0 {
			seqs = append(seqs, append([]int{}, cur...))
		}
		if len(cur) == maxLen {
			return
		}
		for _, a := range alphabet {
			if len(cur) >= 2 && !thorough && (a == maxSize-3 || a == maxSize+1 || a == 1) {
				continue
			}
			if len(cur) >= 3 && (a == 0 || a == maxSize+1 || a == maxSize-3) {
				continue
			}
			rec(append(cur, a))
		}
	}
	rec(nil)
	var out []scenario
	for _, s := range seqs {
		out = append(out, scenario{max: 12, sizes: s, queueCap: 8})
		out = append(out, scenario{max: 12, sizes: s, queueCap: 8, closer: true})
		if len(s) <= 3 {
			out = append(out, scenario{max: 12, sizes: s, queueCap: 1, consumer: true})
			out = append(out, scenario{max: 12, sizes: s, queueCap: 1})
		}
		if len(s) <= 2 || thorough {
			out = append(out, scenario{max: 12, sizes: s, queueCap: 1, consumer: true, closer: true})
		}
	}
	// messages of 128 bytes and more have a two-byte length prefix: limit 270
	big := []int{1, 127, 128, 133, 134, 266, 267, 268}
	for _, a := range big {
		out = append(out, scenario{max: 270, sizes: []int{a}, queueCap: 8})
		for _, b := range big {
			out = append(out, scenario{max: 270, sizes: []int{a, b}, queueCap: 8})
			if thorough {
				out = append(out, scenario{max: 270, sizes: []int{a, b}, queueCap: 8, closer: true})
				for _, c := range []int{1, 128, 133} {
					out = append(out, scenario{max: 270, sizes: []int{a, b, c}, queueCap: 8})
				}
			}
		}
	}
	return out
}

func main() {
	r := evid.Start("C32", "exploration")
	scs := scenarios(r.Thorough())
	if evid.RacePass() {
		for i := 0; i < len(scs); i += 9 {
			var o *obs
			b := body(scs[i], &o)
			for k := 0; k < evid.Pick(r, 20, 200); k++ {
				b()
			}
		}
		return
	}
	run := func(i int) evid.ShardResult {
		sc := scs[i]
		res := evid.ShardResult{Name: sc.String(), Counts: map[string]int{}}
		var o *obs
		outcomes := map[string]bool{}
		ex := &vsched.Explorer{Body: body(sc, &o), MaxPreemptions: -1, MaxDeviations: -1, Stop: r.Expired, StopAtFirst: true,
			Check: func(out *vsched.Outcome) (string, string) {
				k, w := check(sc, o, out)
				if k == "" {
					outcomes[fmt.Sprintf("%d batches, %d accepted", len(o.batches), len(o.accepted))] = true
				}
				return k, w
			},
			OnViolation: func(key, what string, choices []int, out *vsched.Outcome) {
				res.Violations = append(res.Violations, evid.ShardViolation{Key: "C32:" + key, What: what + " [" + sc.String() + "]", Replay: map[string]any{"scenario": sc.String(), "choices": choices, "index": i}})
			}}
		if !ex.Run() {
			res.Infra = ex.Diverged
		}
		if !ex.Exhaustive && ex.Violations == 0 {
			res.Capped = "deadline reached inside a scenario"
		}
		res.Counts["executions"] = ex.Executions
		res.Counts["complete"] = ex.Complete
		res.Counts["conflicting"] = ex.Conflicting
		res.Counts["distinct_outcomes"] = len(outcomes)
		if i%211 == 0 && len(ex.SampleTraces) > 0 {
			var oc []string
			for k := range outcomes {
				oc = append(oc, k)
			}
			res.Sample = map[string]any{"scenario": sc.String(), "schedule": ex.SampleTraces[0], "outcomes": strings.Join(oc, "; ")}
		}
		return res
	}
	if len(os.Args) > 2 && os.Args[1] == "--one" {
		var i int
		fmt.Sscan(os.Args[2], &i)
		fmt.Printf("%+v\n", run(i))
		return
	}
	if idx, ok := evid.ReplayIndex(); ok {
		res := run(idx)
		fmt.Printf("replay scenario %d (%s): %d violation(s)\n", idx, res.Name, len(res.Violations))
		for _, v := range res.Violations {
			fmt.Println(" ", v.Key, v.What)
		}
		if len(res.Violations) > 0 {
			os.Exit(1)
		}
		os.Exit(0)
	}
	tot, _ := r.Sharded(len(scs), run)
	r.Cov["evaluations"] = tot["executions"]
	r.Cov["distinct_nontrivial"] = tot["conflicting"]
	r.Cov["complete_executions"] = tot["complete"]
	r.Cov["scenarios"] = len(scs)
	r.Cov["distinct_outcomes"] = tot["distinct_outcomes"]
	r.Cov["preemption_bound"] = "unbounded"
	r.Cov["rule"] = fmt.Sprintf("message size sequences of length <=3 (thorough 4) over {0,1,max/2,max-3,max-2,max-1,max,max+1} with max=%d (and sequences of <=2 (3) messages over {1,127,128,133,134,266,267,268} with max=270, where the length prefix takes two bytes) x {queue 8 with Close after the sends, queue 8 with concurrent Close, queue 1 with concurrent consumer, queue 1 without consumer (drops allowed), queue 1 with consumer and concurrent Close}; the timer fires at every possible point (its dispatch thread is scheduled like any other); all interleavings", maxSize)
	r.Assumptions = []string{"maximum sizes 12 and 270 bytes (one- and two-byte length prefixes; three-byte prefixes start at 16 KiB messages)", "the timer's timeout value is irrelevant: firing is a scheduling decision"}
	r.Finish()
}
