// C19: the block index keeps a complete, bounded window of accepted blocks.
// Explicit-state BFS over accept / accept-after-gap / historical-save / restart histories on
// the real chainindex.ChainIndex over memdb; every operation is one atomic batch, so a crash
// point is "before or after an operation" and is covered by the restart operation.
package main

import (
	"context"
	"encoding/binary"
	"errors"
	"fmt"
	"sort"
	"strings"
	"sync/atomic"

	"github.com/ava-labs/avalanchego/database"
	"github.com/ava-labs/avalanchego/database/memdb"
	"github.com/ava-labs/avalanchego/ids"
	"github.com/ava-labs/avalanchego/utils/logging"
	"github.com/prometheus/client_golang/prometheus"

	"github.com/ava-labs/hypersdk/chainindex"
	"github.com/ava-labs/hypersdk/internal/vshim/evid"
	"github.com/ava-labs/hypersdk/internal/vshim/seqx"
)

type blk struct {
	h uint64
}

func (b *blk) GetID() ids.ID       { return ids.ID{0xb1, byte(b.h), byte(b.h >> 8)} }
func (b *blk) GetHeight() uint64   { return b.h }
func (b *blk) GetBytes() []byte    { return binary.BigEndian.AppendUint64([]byte("blk"), b.h) }

type parser struct{}

func (parser) ParseBlock(_ context.Context, b []byte) (*blk, error) {
	if len(b) != 11 || string(b[:3]) != "blk" {
		return nil, errors.New("bad block bytes")
	}
	return &blk{binary.BigEndian.Uint64(b[3:])}, nil
}

// crashDB numbers every durable write (Put, Delete, Batch.Write) and, while recording, keeps
// a copy of the database content after each one: every prefix of the durable-write sequence
// of an operation is a crash point (pebble is opened with synchronous, atomic batch writes).
type crashDB struct {
	*memdb.Database
	recording bool
	snaps     []*memdb.Database
}

func (c *crashDB) snap() {
	if !c.recording {
		return
	}
	cp := memdb.New()
	it := c.Database.NewIterator()
	for it.Next() {
		_ = cp.Put(append([]byte{}, it.Key()...), append([]byte{}, it.Value()...))
	}
	it.Release()
	c.snaps = append(c.snaps, cp)
}

func (c *crashDB) Put(k, v []byte) error {
	err := c.Database.Put(k, v)
	c.snap()
	return err
}

func (c *crashDB) Delete(k []byte) error {
	err := c.Database.Delete(k)
	c.snap()
	return err
}

type crashBatch struct {
	database.Batch
	c *crashDB
}

func (b *crashBatch) Write() error {
	err := b.Batch.Write()
	b.c.snap()
	return err
}

func (c *crashDB) NewBatch() database.Batch { return &crashBatch{c.Database.NewBatch(), c} }

type opKind int

const (
	oAccept opKind = iota
	oGap
	oHist
	oRestart
)

type opDef struct {
	kind opKind
	arg  int
	name string
}

var (
	windows = []uint64{0, 1, 2, 3}
	ops     = []opDef{
		{oAccept, 1, "accept(next height)"},
		{oGap, 3, "accept(height+3, state-sync target)"},
		{oGap, 2, "accept(height+2, state-sync target)"},
		{oAccept, 0, "accept(the last accepted block again: resumed state sync re-delivers its target)"},
		{oHist, 1, "save-historical(last-1)"},
		{oHist, 2, "save-historical(last-2)"},
		{oHist, 4, "save-historical(last-4)"},
		{oRestart, 0, "restart(same window)"},
		{oRestart, 1, "restart(window+1)"},
		{oRestart, -1, "restart(window-1)"},
	}
)

func hist(h []int) []string {
	o := []string{}
	for i, x := range h {
		if i == 0 {
			o = append(o, fmt.Sprintf("window=%d", windows[x]))
		} else {
			o = append(o, ops[x-len(windows)].name)
		}
	}
	return o
}

func open(db database.Database, window uint64) (*chainindex.ChainIndex[*blk], error) {
	return chainindex.New[*blk](context.Background(), logging.NoLog{}, prometheus.NewRegistry(),
		chainindex.Config{AcceptedBlockWindow: window, BlockCompactionFrequency: 1 << 62}, parser{}, db)
}

var crashPoints, opsWithWrites, maxWrites atomic.Int64

func exec(h []int) seqx.Result {
	if len(h) == 0 {
		en := make([]int, len(windows))
		for i := range en {
			en[i] = i
		}
		return seqx.Result{Key: "root", Enabled: en}
	}
	ctx := context.Background()
	window := windows[h[0]]
	db := &crashDB{Database: memdb.New()}
	viol := func(key, what string) seqx.Result {
		return seqx.Result{Violation: &seqx.Violation{Key: "C19:" + key, What: what, Data: map[string]any{"history": hist(h)}}}
	}
	ci, err := open(db, window)
	if err != nil {
		return viol("open-failed", err.Error())
	}
	if err := ci.UpdateLastAccepted(ctx, &blk{0}); err != nil {
		return viol("genesis-accept-failed", err.Error())
	}
	stored := map[uint64]bool{0: true} // blocks ever written and not yet allowed to be pruned (model tracks "written")
	last := uint64(0)
	gapOrHist := false // the history contains a gap or a historical save since the last restart
	outcome := ""
	for step, oi := range h[1:] {
		o := ops[oi-len(windows)]
		prevLast := last
		isLastOp := step == len(h)-2
		db.recording, db.snaps = isLastOp, nil
		switch o.kind {
		case oAccept, oGap:
			nh := last + uint64(o.arg)
			if o.kind == oGap {
				gapOrHist = true
			}
			if err := ci.UpdateLastAccepted(ctx, &blk{nh}); err != nil {
				key := "accept-fails"
				if errors.Is(err, database.ErrNotFound) {
					key = "accept-fails-when-prune-target-missing"
				}
				return viol(key, fmt.Sprintf("step %d: recording accepted block %d (window %d, previous last %d) failed: %v", step, nh, window, last, err))
			}
			last = nh
			stored[nh] = true
			outcome = o.name
		case oHist:
			if uint64(o.arg) >= last {
				continue // no such height (disabled below; kept for safety)
			}
			hh := last - uint64(o.arg)
			if hh == 0 {
				continue
			}
			if err := ci.SaveHistorical(&blk{hh}); err != nil {
				return viol("save-historical-fails", fmt.Sprintf("step %d: %v", step, err))
			}
			stored[hh] = true
			gapOrHist = true
			outcome = "save-historical"
		case oRestart:
			nw := int64(window) + int64(o.arg)
			if nw < 0 {
				nw = 0
			}
			window = uint64(nw)
			ci, err = open(db, window)
			if err != nil {
				return viol("restart-fails", fmt.Sprintf("step %d: reopening with window %d failed: %v", step, window, err))
			}
			gapOrHist = false
			outcome = "restart"
		}
		// ---- crash points inside the operation: every proper prefix of its durable writes
		db.recording = false
		if isLastOp && len(db.snaps) > 1 {
			for k, sn := range db.snaps[:len(db.snaps)-1] {
				rci, err := open(sn, window)
				if err != nil {
					return viol("crash:reopen-fails", fmt.Sprintf("step %d %s: crash after durable write %d of %d: reopening failed: %v", step, o.name, k+1, len(db.snaps), err))
				}
				got, err := rci.GetLastAcceptedHeight(ctx)
				if err != nil || (got != prevLast && got != last) {
					return viol("crash:last-accepted-height", fmt.Sprintf("step %d %s: crash after durable write %d of %d: last accepted height %d,%v (before the operation %d, after it %d)", step, o.name, k+1, len(db.snaps), got, err, prevLast, last))
				}
				for _, hh := range []uint64{0, got} {
					b, err := rci.GetBlockByHeight(ctx, hh)
					if err != nil || b.h != hh {
						return viol("crash:last-accepted-block-missing", fmt.Sprintf("step %d %s: crash after durable write %d of %d: last accepted height is %d but GetBlockByHeight(%d) = %v,%v", step, o.name, k+1, len(db.snaps), got, hh, b, err))
					}
					if _, err := rci.GetBlock(ctx, b.GetID()); err != nil {
						return viol("crash:last-accepted-block-missing", fmt.Sprintf("step %d %s: crash after durable write %d of %d: block %d not retrievable by id: %v", step, o.name, k+1, len(db.snaps), hh, err))
					}
				}
				// blocks of the window of the recovered tip that were stored before the operation
				for hh := range stored {
					if hh == 0 || hh > got || (window != 0 && hh+window <= got) || (hh == last && got != last) {
						continue
					}
					if b, err := rci.GetBlockByHeight(ctx, hh); err != nil || b.h != hh {
						return viol("crash:window-block-missing", fmt.Sprintf("step %d %s: crash after durable write %d of %d: recovered tip %d, window %d, block %d = %v,%v", step, o.name, k+1, len(db.snaps), got, window, hh, b, err))
					}
				}
			}
			crashPoints.Add(int64(len(db.snaps) - 1))
		}
		if isLastOp {
			opsWithWrites.Add(1)
			for {
				m := maxWrites.Load()
				if int64(len(db.snaps)) <= m || maxWrites.CompareAndSwap(m, int64(len(db.snaps))) {
					break
				}
			}
		}
		// ---- oracle after every step
		if got, err := ci.GetLastAcceptedHeight(ctx); err != nil || got != last {
			return viol("last-accepted-height", fmt.Sprintf("step %d: last accepted height %d,%v expected %d", step, got, err, last))
		}
		// what is on disk
		onDisk := map[uint64]bool{}
		it := db.NewIteratorWithPrefix([]byte{0x2})
		for it.Next() {
			onDisk[binary.BigEndian.Uint64(it.Key()[1:])] = true
		}
		it.Release()
		consistent := func(hh uint64) string {
			b, err := ci.GetBlockByHeight(ctx, hh)
			if err != nil || b.h != hh {
				return fmt.Sprintf("GetBlockByHeight(%d) = %v,%v", hh, b, err)
			}
			id, err := ci.GetBlockIDAtHeight(ctx, hh)
			if err != nil || id != b.GetID() {
				return fmt.Sprintf("GetBlockIDAtHeight(%d) = %s,%v", hh, id, err)
			}
			gh, err := ci.GetBlockIDHeight(ctx, id)
			if err != nil || gh != hh {
				return fmt.Sprintf("GetBlockIDHeight(id of %d) = %d,%v", hh, gh, err)
			}
			b2, err := ci.GetBlock(ctx, id)
			if err != nil || b2.h != hh {
				return fmt.Sprintf("GetBlock(id of %d) = %v,%v", hh, b2, err)
			}
			return ""
		}
		if msg := consistent(0); msg != "" {
			return viol("genesis-not-retrievable", fmt.Sprintf("step %d %s: %s", step, o.name, msg))
		}
		for hh := range stored {
			inWindow := window == 0 || hh+window > last // hh in (last-window, last]
			if hh == 0 || !inWindow {
				continue
			}
			if msg := consistent(hh); msg != "" {
				return viol("window-block-not-retrievable", fmt.Sprintf("step %d %s: window %d last %d: %s", step, o.name, window, last, msg))
			}
		}
		// whatever is retained must be mutually consistent
		for hh := range onDisk {
			if msg := consistent(hh); msg != "" {
				return viol("inconsistent-mappings", fmt.Sprintf("step %d %s: %s", step, o.name, msg))
			}
		}
		// retention bound (window >= 1): always right after a restart; at every state of
		// histories without gaps / historical saves since the last restart
		if window >= 1 && !gapOrHist {
			n := 0
			for hh := range onDisk {
				if hh != 0 {
					n++
				}
			}
			if uint64(n) > window+1 {
				return viol("retains-more-than-window+1", fmt.Sprintf("step %d %s: %d non-genesis blocks retained with window %d (heights %v)", step, o.name, n, window, keys(onDisk)))
			}
		}
		// pruned blocks leave the model
		for hh := range stored {
			if hh != 0 && !onDisk[hh] {
				delete(stored, hh)
			}
		}
	}
	var en []int
	for j, o := range ops {
		if o.kind == oHist && (uint64(o.arg) >= last) {
			continue
		}
		if last >= 9 && (o.kind == oAccept || o.kind == oGap) {
			continue
		}
		en = append(en, len(windows)+j)
	}
	// canonical key: database content relative to last + window + flags
	var ks []string
	it := db.NewIterator()
	for it.Next() {
		ks = append(ks, fmt.Sprintf("%x=%x", it.Key(), it.Value()))
	}
	it.Release()
	sort.Strings(ks)
	return seqx.Result{Key: fmt.Sprintf("w%d|g%v|%s", window, gapOrHist, strings.Join(ks, ";")), Enabled: en, Outcome: outcome}
}

func keys(m map[uint64]bool) []uint64 {
	var o []uint64
	for k := range m {
		o = append(o, k)
	}
	sort.Slice(o, func(i, j int) bool { return o[i] < o[j] })
	return o
}

func main() {
	r := evid.Start("C19", "model_checking")
	depth := evid.Pick(r, 8, 11)
	s := &seqx.Search{Exec: exec, MaxDepth: depth, Stop: r.Expired,
		OnViolation: func(h []int, v *seqx.Violation) {
			r.Violation(v.Key, v.What, map[string]any{"history": hist(h), "ops": h})
		}}
	st := s.Run()
	if !st.Complete {
		r.Cap("deadline reached before the depth bound")
	}
	for _, h := range st.Samples {
		r.Sample(hist(h))
	}
	r.Cov["states"] = st.States
	r.Cov["transitions"] = st.Transitions
	r.Cov["traces_validated_against_impl"] = st.Transitions
	r.Cov["max_depth"] = st.MaxDepth
	r.Cov["distinct_outcomes"] = len(st.Outcomes)
	r.Cov["frontier_unexpanded_at_bound"] = st.Frontier
	r.Cov["bounds"] = map[string]any{"depth": depth, "windows": windows, "ops": len(ops), "max_height": 12}
	r.Cov["crash_points_inside_operations"] = crashPoints.Load()
	r.Cov["max_durable_writes_per_operation"] = maxWrites.Load()
	r.Cov["explanation"] = "every transition executes the real ChainIndex on memdb (fresh database, history replayed); a counting database wrapper records every durable write of the last operation; every proper prefix of that write sequence is reopened and checked (tip is the old or the new height, tip block and its window retrievable); operation boundaries are covered by the restart operation at every state"
	r.Assumptions = []string{"window 0 = retain everything (repo tests and docs)", "retention bound checked for window >= 1 after every restart and at every state of histories without height gaps / historical saves since the last restart (over-retention in between is the documented pruning heuristic)", "healthy database = memdb"}
	r.Finish()
}
