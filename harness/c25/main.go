// C25: expiry-indexed sets (EMap, ExpiryHeap, Heap) behave like an ordered set.
// Explicit-state BFS over add/remove/set-min/pop histories on the real structures against a
// map reference; every query is evaluated in every state.
package main

import (
	"fmt"
	"sort"
	"strings"

	"github.com/ava-labs/avalanchego/ids"
	"github.com/ava-labs/avalanchego/utils/set"

	"github.com/ava-labs/hypersdk/internal/eheap"
	"github.com/ava-labs/hypersdk/internal/emap"
	"github.com/ava-labs/hypersdk/internal/heap"
	"github.com/ava-labs/hypersdk/internal/vshim/evid"
	"github.com/ava-labs/hypersdk/internal/vshim/seqx"
)

type item struct {
	id  ids.ID
	exp int64
}

func (i *item) GetID() ids.ID    { return i.id }
func (i *item) GetExpiry() int64 { return i.exp }

var (
	nIDs = 3
	maxExp = int64(3)
	idv  []ids.ID
)

func setup(n int, me int64) {
	nIDs, maxExp = n, me
	idv = nil
	for i := 0; i < n; i++ {
		idv = append(idv, ids.ID{byte(i + 1), byte(i + 1)})
	}
}

type opKind int

const (
	kAdd opKind = iota
	kAddBatch
	kRemove
	kSetMin
	kPopMin
	kPopMax
)

type opDef struct {
	kind opKind
	id   int
	exp  int64
	name string
}

func alphabet(withRemove, withZero, withBatch bool) []opDef {
	var ops []opDef
	for i := 0; i < nIDs; i++ {
		for e := int64(0); e <= maxExp; e++ {
			if e == 0 && !withZero {
				continue
			}
			ops = append(ops, opDef{kAdd, i, e, fmt.Sprintf("add(id%d,exp%d)", i, e)})
		}
	}
	if withBatch {
		ops = append(ops, opDef{kAddBatch, 0, 2, "add([id0@2,id1@2,id2@1])"})
	}
	if withRemove {
		for i := 0; i < nIDs; i++ {
			ops = append(ops, opDef{kind: kRemove, id: i, name: fmt.Sprintf("remove(id%d)", i)})
		}
		ops = append(ops, opDef{kind: kPopMin, name: "popmin"})
	}
	for t := int64(0); t <= maxExp+1; t++ {
		ops = append(ops, opDef{kind: kSetMin, exp: t, name: fmt.Sprintf("setmin(%d)", t)})
	}
	return ops
}

func names(ops []opDef, h []int) []string {
	o := make([]string, len(h))
	for i, x := range h {
		o[i] = ops[x].name
	}
	return o
}

func all(n int) []int {
	o := make([]int, n)
	for i := range o {
		o[i] = i
	}
	return o
}

func modelKey(m map[int]int64) string {
	s := []string{}
	for i, e := range m {
		s = append(s, fmt.Sprintf("%d@%d", i, e))
	}
	sort.Strings(s)
	return strings.Join(s, ",")
}

func below(m map[int]int64, t int64) []int {
	var o []int
	for i, e := range m {
		if e < t {
			o = append(o, i)
		}
	}
	sort.Ints(o)
	return o
}

func idIndex(id ids.ID) int { return int(id[0]) - 1 }

func v(key, what string, ops []opDef, h []int) seqx.Result {
	return seqx.Result{Violation: &seqx.Violation{Key: key, What: what, Data: map[string]any{"history": names(ops, h)}}}
}

// ---------- EMap
func execEMap(ops []opDef) func([]int) seqx.Result {
	return func(h []int) seqx.Result {
		e := emap.NewEMap[*item]()
		m := map[int]int64{}
		outcome := ""
		for step, oi := range h {
			o := ops[oi]
			switch o.kind {
			case kAdd:
				e.Add([]*item{{idv[o.id], o.exp}})
				if _, ok := m[o.id]; !ok && o.exp != 0 {
					m[o.id] = o.exp
					outcome = "add-new"
				} else {
					outcome = "add-ignored"
				}
			case kAddBatch:
				e.Add([]*item{{idv[0], 2}, {idv[1], 2}, {idv[2], 1}})
				for i, x := range []int64{2, 2, 1} {
					if _, ok := m[i]; !ok {
						m[i] = x
					}
				}
				outcome = "add-batch"
			case kSetMin:
				got := e.SetMin(o.exp)
				want := below(m, o.exp)
				gi := []int{}
				for _, id := range got {
					gi = append(gi, idIndex(id))
				}
				sort.Ints(gi)
				if fmt.Sprint(gi) != fmt.Sprint(want) {
					return v("C25:emap-setmin-returns-wrong-set", fmt.Sprintf("step %d %s returned ids %v, expected %v (model %s)", step, o.name, gi, want, modelKey(m)), ops, h)
				}
				for _, i := range want {
					delete(m, i)
				}
				outcome = fmt.Sprintf("setmin-evicts-%d", len(want))
			}
			// queries in every state
			for i := 0; i < nIDs; i++ {
				_, in := m[i]
				if e.Any([]*item{{idv[i], 9}}) != in {
					return v("C25:emap-membership", fmt.Sprintf("step %d %s: Any(id%d)=%v, model %s", step, o.name, i, !in, modelKey(m)), ops, h)
				}
			}
			probe := []*item{}
			for i := 0; i < nIDs; i++ {
				probe = append(probe, &item{idv[i], 9})
			}
			bits := e.Contains(probe, set.NewBits(), false)
			for i := 0; i < nIDs; i++ {
				if _, in := m[i]; bits.Contains(i) != in {
					return v("C25:emap-contains", fmt.Sprintf("step %d %s: Contains bit %d = %v, model %s", step, o.name, i, !in, modelKey(m)), ops, h)
				}
			}
			stopBits := e.Contains(probe, set.NewBits(), true)
			if len(m) > 0 && stopBits.Len() != 1 || len(m) == 0 && stopBits.Len() != 0 {
				return v("C25:emap-contains-stop", fmt.Sprintf("step %d: Contains(stop) marked %d", step, stopBits.Len()), ops, h)
			}
		}
		return seqx.Result{Key: e.VerifDump() + "|" + modelKey(m), Enabled: all(len(ops)), Outcome: outcome}
	}
}

// ---------- ExpiryHeap
func execEHeap(ops []opDef) func([]int) seqx.Result {
	return func(h []int) seqx.Result {
		e := eheap.New[*item](2)
		m := map[int]int64{}
		outcome := ""
		minOf := func() (int64, bool) {
			first := true
			var mn int64
			for _, x := range m {
				if first || x < mn {
					mn, first = x, false
				}
			}
			return mn, !first
		}
		for step, oi := range h {
			o := ops[oi]
			switch o.kind {
			case kAdd:
				e.Add(&item{idv[o.id], o.exp})
				if _, ok := m[o.id]; !ok {
					m[o.id] = o.exp
					outcome = "add-new"
				} else {
					outcome = "add-ignored"
				}
			case kRemove:
				it, ok := e.Remove(idv[o.id])
				exp, in := m[o.id]
				if ok != in || (ok && (it.id != idv[o.id] || it.exp != exp)) {
					return v("C25:eheap-remove", fmt.Sprintf("step %d %s returned %v,%v; model %s", step, o.name, it, ok, modelKey(m)), ops, h)
				}
				delete(m, o.id)
				outcome = fmt.Sprint("remove-", ok)
			case kPopMin:
				it, ok := e.PopMin()
				mn, in := minOf()
				if ok != in || (ok && (it.exp != mn || m[idIndex(it.id)] != it.exp)) {
					return v("C25:eheap-popmin", fmt.Sprintf("step %d popmin returned %v,%v; model %s", step, it, ok, modelKey(m)), ops, h)
				}
				if ok {
					delete(m, idIndex(it.id))
				}
				outcome = fmt.Sprint("popmin-", ok)
			case kSetMin:
				got := e.SetMin(o.exp)
				want := below(m, o.exp)
				gi := []int{}
				last := int64(-1)
				for _, it := range got {
					gi = append(gi, idIndex(it.id))
					if it.exp != m[idIndex(it.id)] {
						return v("C25:eheap-setmin-item", "returned item with wrong expiry", ops, h)
					}
					if it.exp < last {
						return v("C25:eheap-setmin-order", fmt.Sprintf("step %d %s returned items out of expiry order", step, o.name), ops, h)
					}
					last = it.exp
				}
				sort.Ints(gi)
				if fmt.Sprint(gi) != fmt.Sprint(want) {
					return v("C25:eheap-setmin-returns-wrong-set", fmt.Sprintf("step %d %s returned ids %v, expected %v (model %s)", step, o.name, gi, want, modelKey(m)), ops, h)
				}
				for _, i := range want {
					delete(m, i)
				}
				outcome = fmt.Sprintf("setmin-evicts-%d", len(want))
			}
			if e.Len() != len(m) {
				return v("C25:eheap-len", fmt.Sprintf("step %d %s: Len=%d model %s", step, o.name, e.Len(), modelKey(m)), ops, h)
			}
			for i := 0; i < nIDs; i++ {
				if _, in := m[i]; e.Has(idv[i]) != in {
					return v("C25:eheap-membership", fmt.Sprintf("step %d %s: Has(id%d)=%v model %s", step, o.name, i, !in, modelKey(m)), ops, h)
				}
			}
			it, ok := e.PeekMin()
			mn, in := minOf()
			if ok != in || (ok && (it.exp != mn || m[idIndex(it.id)] != it.exp)) {
				return v("C25:eheap-min-wrong", fmt.Sprintf("step %d %s: PeekMin=%v,%v but model %s", step, o.name, it, ok, modelKey(m)), ops, h)
			}
		}
		return seqx.Result{Key: e.VerifDump() + "|" + modelKey(m), Enabled: all(len(ops)), Outcome: outcome}
	}
}

// ---------- Heap (max-heap mode, by index removal)
func execHeap(ops []opDef) func([]int) seqx.Result {
	return func(h []int) seqx.Result {
		hp := heap.New[int, int64](2, false)
		m := map[int]int64{}
		outcome := ""
		for step, oi := range h {
			o := ops[oi]
			switch o.kind {
			case kAdd:
				hp.Push(&heap.Entry[int, int64]{ID: idv[o.id], Item: o.id, Val: o.exp, Index: hp.Len()})
				if _, ok := m[o.id]; !ok {
					m[o.id] = o.exp
				}
				outcome = "push"
			case kRemove:
				ent, ok := hp.Get(idv[o.id])
				_, in := m[o.id]
				if ok != in {
					return v("C25:heap-get", fmt.Sprintf("step %d Get(id%d)=%v model %s", step, o.id, ok, modelKey(m)), ops, h)
				}
				if ok {
					if hp.Items()[ent.Index] != ent {
						return v("C25:heap-index-stale", fmt.Sprintf("step %d: entry id%d records index %d but is not there", step, o.id, ent.Index), ops, h)
					}
					r := hp.Remove(ent.Index)
					if r != ent {
						return v("C25:heap-remove-wrong-entry", fmt.Sprintf("step %d: Remove(index of id%d) removed id%d", step, o.id, r.Item), ops, h)
					}
					delete(m, o.id)
				}
				outcome = fmt.Sprint("remove-", ok)
			case kPopMin, kSetMin: // used as pop (max) here
				e := hp.Pop()
				if (e == nil) != (len(m) == 0) {
					return v("C25:heap-pop-empty", "pop nil mismatch", ops, h)
				}
				if e != nil {
					for _, x := range m {
						if x > e.Val {
							return v("C25:heap-pop-not-max", fmt.Sprintf("step %d: popped %d but model %s", step, e.Val, modelKey(m)), ops, h)
						}
					}
					if m[e.Item] != e.Val {
						return v("C25:heap-pop-wrong-entry", "popped entry not in model", ops, h)
					}
					delete(m, e.Item)
				}
				outcome = fmt.Sprint("pop-", e != nil)
			}
			if hp.Len() != len(m) {
				return v("C25:heap-len", fmt.Sprintf("step %d: Len=%d model %s", step, hp.Len(), modelKey(m)), ops, h)
			}
			for i := 0; i < nIDs; i++ {
				if _, in := m[i]; hp.Has(idv[i]) != in {
					return v("C25:heap-membership", fmt.Sprintf("step %d: Has(id%d)=%v model %s", step, i, !in, modelKey(m)), ops, h)
				}
			}
			if f := hp.First(); f != nil {
				for _, x := range m {
					if x > f.Val {
						return v("C25:heap-first-not-max", fmt.Sprintf("step %d: First=%d model %s", step, f.Val, modelKey(m)), ops, h)
					}
				}
			}
			for i, e := range hp.Items() {
				if e.Index != i {
					return v("C25:heap-index-stale", fmt.Sprintf("step %d: entry at %d records index %d", step, i, e.Index), ops, h)
				}
			}
		}
		var sb strings.Builder
		for _, e := range hp.Items() {
			fmt.Fprintf(&sb, "%d@%d,", e.Item, e.Val)
		}
		return seqx.Result{Key: "H:" + sb.String(), Enabled: all(len(ops)), Outcome: outcome}
	}
}

// heapShapes covers heap layouts the 3-4 id BFS cannot reach: for every n <= 7 and EVERY
// insertion order of n distinct expiries (every permutation = every reachable array layout of
// that size), remove each single element, then check the minimum, a SetMin at every
// threshold, membership, and that popping yields the remaining elements in ascending order.
func heapShapes(r *evid.Run) int {
	cases := 0
	maxN := evid.Pick(r, 7, 8)
	for n := 1; n <= maxN; n++ {
		perm := make([]int, n)
		for i := range perm {
			perm[i] = i
		}
		var rec func(k int)
		check := func() {
			for rm := -1; rm < n; rm++ { // -1: no removal
				for thr := 0; thr <= n; thr++ {
					cases++
					eh := eheap.New[*item](0)
					for _, e := range perm {
						eh.Add(&item{id: ids.ID{byte(e + 1), 0x77}, exp: int64(e + 1)})
					}
					remaining := map[int]bool{}
					for e := 0; e < n; e++ {
						remaining[e] = true
					}
					if rm >= 0 {
						if _, ok := eh.Remove(ids.ID{byte(rm + 1), 0x77}); !ok {
							r.Violation("C25:heap-shape:remove-missing", fmt.Sprintf("insertion order %v: Remove(%d) reports missing", perm, rm+1), map[string]any{"order": perm, "remove": rm + 1})
							return
						}
						delete(remaining, rm)
					}
					rep := map[string]any{"order": append([]int{}, perm...), "remove": rm + 1, "setmin": thr + 1}
					if rm >= 0 && eh.Has(ids.ID{byte(rm + 1), 0x77}) {
						r.Violation("C25:heap-shape:removed-still-member", fmt.Sprintf("insertion order %v remove %d: still a member", perm, rm+1), rep)
						return
					}
					got := eh.SetMin(int64(thr + 1))
					var want []int
					for e := 0; e < n; e++ {
						if remaining[e] && e+1 < thr+1 {
							want = append(want, e+1)
							delete(remaining, e)
						}
					}
					var gotE []int
					for _, it := range got {
						gotE = append(gotE, int(it.exp))
					}
					sort.Ints(gotE)
					if fmt.Sprint(gotE) != fmt.Sprint(want) {
						r.Violation("C25:heap-shape:setmin-wrong", fmt.Sprintf("expiries inserted in order %v, removed %d, SetMin(%d) returned %v, expected %v", plus1(perm), rm+1, thr+1, gotE, want), rep)
						return
					}
					var popped []int
					for {
						it, ok := eh.PopMin()
						if !ok {
							break
						}
						popped = append(popped, int(it.exp))
					}
					var rest []int
					for e := 0; e < n; e++ {
						if remaining[e] {
							rest = append(rest, e+1)
						}
					}
					if fmt.Sprint(popped) != fmt.Sprint(rest) {
						r.Violation("C25:heap-shape:pop-order-wrong", fmt.Sprintf("expiries inserted in order %v, removed %d, SetMin(%d): popping yields %v, expected %v", plus1(perm), rm+1, thr+1, popped, rest), rep)
						return
					}
				}
			}
		}
		rec = func(k int) {
			if k == n {
				check()
				return
			}
			for i := k; i < n; i++ {
				perm[k], perm[i] = perm[i], perm[k]
				rec(k + 1)
				perm[k], perm[i] = perm[i], perm[k]
			}
		}
		rec(0)
		if r.Expired() {
			r.Cap("heap shapes: deadline reached")
			break
		}
	}
	return cases
}

func plus1(p []int) []int {
	o := make([]int, len(p))
	for i, x := range p {
		o[i] = x + 1
	}
	return o
}

func main() {
	r := evid.Start("C25", "model_checking")
	depth := evid.Pick(r, 6, 12)
	setup(evid.Pick(r, 3, 4), evid.Pick(r, int64(3), int64(4)))
	type sub struct {
		name  string
		ops   []opDef
		exec  func([]int) seqx.Result
		depth int
	}
	emOps := alphabet(false, true, true)
	ehOps := alphabet(true, true, false)
	hpOps := alphabet(true, true, false)
	subs := []sub{
		{"emap", emOps, execEMap(emOps), depth},
		{"eheap", ehOps, execEHeap(ehOps), depth},
		{"heap-max", hpOps, execHeap(hpOps), depth},
	}
	states, trans := 0, 0
	outcomes := map[string]int{}
	per := map[string]any{}
	for _, s := range subs {
		ops := s.ops
		srch := &seqx.Search{Exec: s.exec, MaxDepth: s.depth, Stop: r.Expired,
			OnViolation: func(h []int, vv *seqx.Violation) {
				r.Violation(vv.Key, vv.What, map[string]any{"structure": s.name, "history": names(ops, h), "ops": h})
			}}
		st := srch.Run()
		if !st.Complete {
			r.Cap(s.name + ": deadline reached")
		}
		states += st.States
		trans += st.Transitions
		for k, n := range st.Outcomes {
			outcomes[s.name+":"+k] += n
		}
		for _, h := range st.Samples[:min(2, len(st.Samples))] {
			r.Sample(map[string]any{"structure": s.name, "history": names(ops, h)})
		}
		per[s.name] = map[string]any{"states": st.States, "transitions": st.Transitions, "depth": s.depth, "ops": len(ops)}
	}
	shapeCases := heapShapes(r)
	r.Cov["heap_shape_cases"] = shapeCases
	r.Cov["states"] = states
	r.Cov["transitions"] = trans
	r.Cov["traces_validated_against_impl"] = trans
	r.Cov["distinct_outcomes"] = len(outcomes)
	r.Cov["per_structure"] = per
	r.Cov["explanation"] = "BFS over add/remove/set-min/pop histories on the real EMap, ExpiryHeap and Heap; membership, minimum, length and returned sets compared with a map reference in every state; plus a complete grid over heap layouts: every insertion order of n <= 7 (thorough 8) distinct expiries x every single removal x every SetMin threshold, then pop order"
	r.Assumptions = []string{fmt.Sprintf("%d ids, expiries 0..%d, set-min 0..%d", nIDs, maxExp, maxExp+1), "EMap: entries with expiry 0 are never tracked (as the statement scopes)"}
	r.Finish()
}
