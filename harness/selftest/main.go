// selftest: the exploration engine checked against toy programs whose behaviour under a given
// preemption bound is known. Not a property check (not in MANIFEST.json): `./check selftest`
// exits 0 iff the engine finds every planted bug at exactly the bound it needs, finds nothing
// below that bound, is deterministic (two runs explore the same executions and outcomes) and
// its visited-state pruning preserves the set of reachable outcomes.
package main

import (
	"fmt"
	"os"
	"sort"
	"strings"
	"time"

	"github.com/ava-labs/hypersdk/internal/vshim/vsched"
	"github.com/ava-labs/hypersdk/internal/vshim/vtimer"
)

type toy struct {
	name     string
	body     func(obs *string) func()
	bad      func(obs string, out *vsched.Outcome) bool
	needs    int // smallest preemption bound at which the bug is reachable
	hasBug   bool
	maxBound int
}

func join(n int) (done func(), wait func()) {
	ch := vsched.Make[struct{}](n)
	return func() { vsched.Send(ch, struct{}{}) }, func() {
		for i := 0; i < n; i++ {
			vsched.Recv(ch)
		}
	}
}

var toys = []toy{
	{name: "lost update (read and write in separate critical sections)", needs: 1, hasBug: true, maxBound: 2,
		body: func(obs *string) func() {
			return func() {
				var mu vsched.Mutex
				x := 0
				done, wait := join(2)
				for i := 0; i < 2; i++ {
					vsched.Go(func() {
						mu.Lock()
						t := x
						mu.Unlock()
						mu.Lock()
						x = t + 1
						mu.Unlock()
						done()
					})
				}
				wait()
				*obs = fmt.Sprint("x=", x)
			}
		},
		bad: func(obs string, _ *vsched.Outcome) bool { return obs != "x=2" }},
	{name: "atomic increment under one lock (no bug)", needs: 0, hasBug: false, maxBound: 3,
		body: func(obs *string) func() {
			return func() {
				var mu vsched.Mutex
				x := 0
				done, wait := join(3)
				for i := 0; i < 3; i++ {
					vsched.Go(func() {
						mu.Lock()
						x++
						mu.Unlock()
						done()
					})
				}
				wait()
				*obs = fmt.Sprint("x=", x)
			}
		},
		bad: func(obs string, out *vsched.Outcome) bool { return obs != "x=3" || out.Deadlock }},
	{name: "lock-order inversion", needs: 1, hasBug: true, maxBound: 2,
		body: func(obs *string) func() {
			return func() {
				var a, b vsched.Mutex
				done, wait := join(2)
				vsched.Go(func() { a.Lock(); b.Lock(); b.Unlock(); a.Unlock(); done() })
				vsched.Go(func() { b.Lock(); a.Lock(); a.Unlock(); b.Unlock(); done() })
				wait()
				*obs = "finished"
			}
		},
		bad: func(_ string, out *vsched.Outcome) bool { return out.Deadlock }},
	{name: "send on a channel another thread closes", needs: 0, hasBug: true, maxBound: 1,
		body: func(obs *string) func() {
			return func() {
				ch := vsched.Make[int](2)
				done, wait := join(2)
				vsched.Go(func() { vsched.Close(ch); done() })
				vsched.Go(func() {
					defer func() {
						if p := recover(); p != nil {
							*obs = "panic"
						}
						done()
					}()
					vsched.Send(ch, 1)
				})
				wait()
			}
		},
		bad: func(obs string, out *vsched.Outcome) bool { return obs == "panic" || len(out.Panics) > 0 }},
	{name: "flag published before the data (writer preempted between its two critical sections)", needs: 1, hasBug: true, maxBound: 2,
		body: func(obs *string) func() {
			return func() {
				var mu vsched.Mutex
				ready, data := false, 0
				done, wait := join(2)
				vsched.Go(func() { // writer: flag, then data, each in its own critical section
					mu.Lock()
					ready = true
					mu.Unlock()
					mu.Lock()
					data = 7
					mu.Unlock()
					done()
				})
				vsched.Go(func() { // reader: runs its two steps only between the writer's two steps if preempted twice
					mu.Lock()
					r := ready
					mu.Unlock()
					mu.Lock()
					d := data
					mu.Unlock()
					if r && d == 0 {
						*obs = "stale"
					}
					done()
				})
				wait()
			}
		},
		bad: func(obs string, _ *vsched.Outcome) bool { return obs == "stale" }},
	{name: "reader sees x=1 then x=2 (writer and reader each preempted once)", needs: 2, hasBug: true, maxBound: 3,
		body: func(obs *string) func() {
			return func() {
				var mu vsched.Mutex
				x := 0
				done, wait := join(2)
				vsched.Go(func() {
					mu.Lock()
					x = 1
					mu.Unlock()
					mu.Lock()
					x = 2
					mu.Unlock()
					done()
				})
				vsched.Go(func() {
					mu.Lock()
					r1 := x
					mu.Unlock()
					mu.Lock()
					r2 := x
					mu.Unlock()
					if r1 == 1 && r2 == 2 {
						*obs = "saw 1 then 2"
					}
					done()
				})
				wait()
			}
		},
		bad: func(obs string, _ *vsched.Outcome) bool { return obs == "saw 1 then 2" }},
	{name: "timer fires between SetTimeoutIn and Cancel (dispatcher scheduled while the setter is runnable)", needs: 1, hasBug: true, maxBound: 2,
		body: func(obs *string) func() {
			return func() {
				fired := false
				t := vtimer.NewTimer(func() { fired = true })
				vsched.Go(t.Dispatch)
				t.SetTimeoutIn(time.Second)
				t.Cancel()
				t.Stop()
				*obs = fmt.Sprint("fired=", fired)
			}
		},
		bad: func(obs string, _ *vsched.Outcome) bool { return obs == "fired=true" }},
}

type result struct {
	execs    int
	found    bool
	outcomes map[string]bool
}

func explore(t toy, bound int, noPrune bool) result {
	var obs string
	res := result{outcomes: map[string]bool{}}
	ex := &vsched.Explorer{Body: func() { obs = ""; t.body(&obs)() }, MaxPreemptions: bound, MaxDeviations: -1, NoPrune: noPrune,
		Check: func(out *vsched.Outcome) (string, string) {
			res.outcomes[fmt.Sprint(obs, "|deadlock=", out.Deadlock, "|panics=", len(out.Panics))] = true
			if t.bad(obs, out) {
				return "bug", obs
			}
			return "", ""
		},
		OnViolation: func(string, string, []int, *vsched.Outcome) { res.found = true }}
	if !ex.Run() {
		fmt.Println("SELFTEST FAILED: replay divergence:", ex.Diverged)
		os.Exit(2)
	}
	res.execs = ex.Executions
	return res
}

func keys(m map[string]bool) string {
	var k []string
	for x := range m {
		k = append(k, x)
	}
	sort.Strings(k)
	return strings.Join(k, " ; ")
}

func main() {
	ok := true
	fail := func(f string, a ...any) { ok = false; fmt.Printf("SELFTEST FAILED: "+f+"\n", a...) }
	for _, t := range toys {
		for b := 0; b <= t.maxBound; b++ {
			r1 := explore(t, b, false)
			r2 := explore(t, b, false)
			rn := explore(t, b, true)
			want := t.hasBug && b >= t.needs
			if r1.found != want {
				fail("%q at preemption bound %d: bug found=%v, expected %v (outcomes: %s)", t.name, b, r1.found, want, keys(r1.outcomes))
			}
			if r1.execs != r2.execs || keys(r1.outcomes) != keys(r2.outcomes) {
				fail("%q at bound %d: two runs differ (%d vs %d executions; %s vs %s)", t.name, b, r1.execs, r2.execs, keys(r1.outcomes), keys(r2.outcomes))
			}
			if keys(r1.outcomes) != keys(rn.outcomes) {
				fail("%q at bound %d: pruning changed the reachable outcomes: pruned {%s}, unpruned {%s}", t.name, b, keys(r1.outcomes), keys(rn.outcomes))
			}
			fmt.Printf("selftest %-60.60s bound %d: executions pruned=%d unpruned=%d outcomes=%d bug found=%v (expected %v)\n", t.name, b, r1.execs, rn.execs, len(r1.outcomes), r1.found, want)
		}
	}
	if !ok {
		os.Exit(2)
	}
	fmt.Println("selftest: ok")
}
