// C16: block verification accepts exactly the blocks whose signatures all verify.
//
// Part A (inputs x configurations): blocks of n transactions (n around the ed25519 batch
// boundaries) signed with real ed25519 / secp256r1 / BLS keys, uniform and mixed, with no
// invalid signature, every single invalid position, and first+last invalid, are executed by
// the real chain.Processor with the default auth engines (ed25519 batch verifier) over
// parallel worker pools of 1,2,4,16 workers (the pool the VM uses): the block fails with the signature error iff
// one-by-one VerifyAuth finds an invalid signature; the pool is then reused for a valid block.
// Part B (schedules): a 3-transaction mixed block with one invalid signature followed by a
// valid block on the same 2-worker pool, every interleaving within the preemption bound.
package main

import (
	"fmt"
	"os"

	"github.com/ava-labs/avalanchego/ids"
	"github.com/ava-labs/avalanchego/utils/logging"

	"github.com/ava-labs/hypersdk/auth"
	"github.com/ava-labs/hypersdk/chain"
	"github.com/ava-labs/hypersdk/chain/chaintest"
	"github.com/ava-labs/hypersdk/codec"
	"github.com/ava-labs/hypersdk/internal/validitywindow/validitywindowtest"
	"github.com/ava-labs/hypersdk/internal/vshim/evid"
	"github.com/ava-labs/hypersdk/internal/vshim/vsched"
	"github.com/ava-labs/hypersdk/internal/workers"
	"github.com/ava-labs/hypersdk/verifh/rig"
	"github.com/ava-labs/hypersdk/verifh/rigkeys"
)

const blockTs = 1000

type caseSpec struct {
	n          int
	pattern    string // "ed", "mixed", "secp", "bls"
	invalid    []int
	pool       int  // 0 = serial, else parallel with that many workers
	second     bool // part B: also verify an all-valid block on the same pool afterwards
	concurrent bool // part B: the all-valid block is verified by a second thread at the same time (shared pool)
}

func (c caseSpec) String() string {
	s := fmt.Sprintf("txs=%d auths=%s invalid=%v pool=%d", c.n, c.pattern, c.invalid, c.pool)
	if c.concurrent {
		s += " with an all-valid block verified concurrently on the same pool"
	}
	return s
}

func schemeOf(pattern string, i int) string {
	switch pattern {
	case "ed":
		return "ed25519"
	case "secp":
		return "secp256r1"
	case "bls":
		return "bls"
	case "es":
		return rigkeys.Schemes[i%2]
	}
	return rigkeys.Schemes[i%3]
}

type built struct {
	env    *rig.Env
	blk    *chain.ExecutionBlock
	valid  *chain.ExecutionBlock // an all-valid block with the same shape
	anyBad bool
}

var factories = map[string][]chain.AuthFactory{}

func factory(s string, i int) chain.AuthFactory {
	for len(factories[s]) <= i {
		factories[s] = append(factories[s], rigkeys.Factory(s, len(factories[s])))
	}
	return factories[s][i]
}

func mkTx(env *rig.Env, f chain.AuthFactory, nonce uint64, bad bool) *chain.Transaction {
	base := chain.Base{Timestamp: 3000, ChainID: env.Rules.GetChainID(), MaxFee: 1 << 40}
	act := func(n uint64) []chain.Action {
		return []chain.Action{&chaintest.TestAction{NumComputeUnits: 1, Nonce: n, Start: -1, End: -1}}
	}
	td := chain.NewTxData(base, act(nonce))
	tx, err := td.Sign(f)
	if err != nil {
		panic(err)
	}
	if !bad {
		return tx
	}
	// a well-formed signature by the same key over a different transaction body
	other := chain.NewTxData(base, act(nonce+1000))
	otx, err := other.Sign(f)
	if err != nil {
		panic(err)
	}
	btx, err := chain.NewTransaction(base, act(nonce), otx.Auth)
	if err != nil {
		panic(err)
	}
	return btx
}

func build(c caseSpec) *built {
	funded := map[codec.Address]uint64{}
	nk := 4 // keys per scheme, reused round-robin
	for _, s := range rigkeys.Schemes {
		for k := 0; k < nk; k++ {
			funded[factory(s, k).Address()] = 1 << 50
		}
	}
	env := rig.NewEnv(rig.EnvConfig{Funded: funded})
	bad := map[int]bool{}
	for _, i := range c.invalid {
		bad[i] = true
	}
	var txs, vtxs []*chain.Transaction
	for i := 0; i < c.n; i++ {
		f := factory(schemeOf(c.pattern, i), (i/3)%nk)
		txs = append(txs, mkTx(env, f, uint64(i), bad[i]))
		vtxs = append(vtxs, mkTx(env, f, uint64(i), false))
	}
	b := &built{env: env, anyBad: len(c.invalid) > 0}
	b.blk = env.MakeBlock(env.DB, ids.Empty, 1, blockTs, txs)
	b.valid = env.MakeBlock(env.DB, ids.Empty, 1, blockTs, vtxs)
	return b
}

func pool(n int) workers.Workers {
	if n == 0 {
		return workers.NewSerial()
	}
	return workers.NewParallel(n, 10)
}

// oneByOne is the reference: verify each auth individually.
func oneByOne(b *chain.ExecutionBlock) bool {
	ok := true
	for _, tx := range b.Txs {
		if tx.VerifyAuth(rig.Ctx) != nil {
			ok = false
		}
	}
	return ok
}

type obs struct {
	err1, err2 error
	done       bool
}

func (bt *built) body(c caseSpec, o **obs) func() {
	return func() {
		ob := &obs{}
		*o = ob
		w := pool(c.pool)
		cores := c.pool
		if cores == 0 {
			cores = 1
		}
		p := bt.env.NewProcessor(2, 2, w, &validitywindowtest.MockTimeValidityWindow[*chain.Transaction]{}, auth.DefaultEngines())
		_, ob.err1 = p.Execute(rig.Ctx, bt.env.DB, bt.blk, true)
		// the same pool must serve the next block
		_, ob.err2 = p.Execute(rig.Ctx, bt.env.DB, bt.valid, true)
		w.Stop()
		ob.done = true
	}
}

// bodyB drives the signature-verification seam exactly as Processor.verifySignatures /
// waitSignatures do (job, AuthBatch, Add per transaction, asynchronous Done, Wait), for the
// block and then for an all-valid block on the same pool.
func (bt *built) bodyB(c caseSpec, o **obs) func() {
	return func() {
		ob := &obs{}
		*o = ob
		w := workers.NewParallel(c.pool, 10)
		verify := func(b *chain.ExecutionBlock) error {
			job, err := w.NewJob(len(b.Txs))
			if err != nil {
				return err
			}
			counts := map[uint8]int{}
			for _, tx := range b.Txs {
				counts[tx.Auth.GetTypeID()]++
			}
			ab := chain.NewAuthBatch(logging.NoLog{}, auth.DefaultEngines(), job, counts)
			for _, tx := range b.Txs {
				ab.Add(tx.UnsignedBytes(), tx.Auth)
			}
			vsched.Go(func() { ab.Done(func() {}) })
			if err := job.Wait(); err != nil {
				return fmt.Errorf("signatures failed verification: %w", err)
			}
			return nil
		}
		if c.concurrent {
			done := vsched.Make[error](1)
			vsched.Go(func() { vsched.Send(done, verify(bt.valid)) })
			ob.err1 = verify(bt.blk)
			ob.err2 = vsched.Recv(done)
		} else {
			ob.err1 = verify(bt.blk)
		}
		if c.second {
			ob.err2 = verify(bt.valid)
		}
		w.Stop()
		ob.done = true
	}
}

func verdict(bt *built, c caseSpec, ob *obs, deadlock bool, blocked []string) (string, string) {
	if deadlock {
		return "deadlock", fmt.Sprintf("verification hangs: %v", blocked)
	}
	want := oneByOne(bt.blk)
	if want == bt.anyBad {
		evid.Infra("harness: one-by-one verification disagrees with the construction (%s)", c)
	}
	// (any error fails the block: the wording / wrapping of the signature error is not part of the
	// property; the twin block with the same transactions validly signed must pass, which rules out
	// failures for other reasons)
	if want && ob.err1 != nil {
		return "valid-signatures-rejected", fmt.Sprintf("every auth verifies one by one but the block failed: %v", ob.err1)
	}
	if !want && ob.err1 == nil {
		return "invalid-signature-accepted", "an auth fails one-by-one verification but the block verified"
	}
	if ob.err2 != nil {
		return "next-block-fails", fmt.Sprintf("the all-valid block executed next on the same pool failed: %v", ob.err2)
	}
	return "", ""
}

func genCases(thorough bool) []caseSpec {
	counts := []int{0, 1, 3, 4, 5, 7, 8, 9, 12, 16, 17}
	pools := []int{1, 2, 4, 16}
	patterns := []string{"ed", "mixed"}
	if thorough {
		counts = append(counts, 2, 6, 15, 31, 32, 33)
		patterns = append(patterns, "secp", "bls")
	}
	var out []caseSpec
	for _, pat := range patterns {
		for _, n := range counts {
			var invs [][]int
			invs = append(invs, nil)
			for i := 0; i < n; i++ {
				invs = append(invs, []int{i})
			}
			if n >= 2 {
				invs = append(invs, []int{0, n - 1})
			}
			if n >= 9 {
				invs = append(invs, []int{3, 4, 8})
			}
			for _, inv := range invs {
				for _, p := range pools {
					out = append(out, caseSpec{n: n, pattern: pat, invalid: inv, pool: p})
				}
			}
		}
	}
	return out
}

func main() {
	r := evid.Start("C16", "exploration")
	cases := genCases(r.Thorough())
	nA := len(cases)
	// part B scenarios (schedule exploration): small mixed blocks, 2 workers
	type sched struct {
		c     caseSpec
		bound int
	}
	bBound := evid.Pick(r, 1, 2)
	var partB []sched
	for _, c := range []caseSpec{
		{2, "es", []int{1}, 2, false, false}, {2, "es", []int{0}, 2, false, false}, {4, "ed", []int{3}, 2, false, false}, {5, "ed", []int{0}, 2, false, false}, {3, "es", nil, 2, false, false}, {1, "ed", []int{0}, 1, true, false}, {1, "secp", []int{0}, 2, true, false},
	} {
		partB = append(partB, sched{c, bBound})
	}
	// two blocks verified concurrently on one shared pool (vm.authVerifiers is shared by all Execute
	// calls): the second thread multiplies the schedule space: one worker at preemption bound 1, two workers at
	// bound 0 (every choice at blocking points, no preemptions); two workers at bound 1 only in the thorough tier
	partB = append(partB, sched{caseSpec{1, "secp", []int{0}, 1, false, true}, 1}, sched{caseSpec{1, "secp", []int{0}, 2, false, true}, 0})
	if r.Thorough() {
		partB = append(partB, sched{caseSpec{2, "es", []int{0}, 2, false, true}, 0}, sched{caseSpec{1, "secp", []int{0}, 2, false, true}, 1}, sched{caseSpec{1, "ed", nil, 2, false, true}, 1}, sched{caseSpec{2, "secp", []int{1}, 2, false, true}, 1})
	}
	if evid.RacePass() {
		for i := 0; i < len(cases); i += 7 {
			bt := build(cases[i])
			var o *obs
			b := bt.body(cases[i], &o)
			for k := 0; k < evid.Pick(r, 2, 10); k++ {
				b()
			}
		}
		return
	}
	run := func(i int) evid.ShardResult {
		res := evid.ShardResult{Counts: map[string]int{}}
		if i < len(partB) {
			s := partB[i]
			c := s.c
			res.Name = "B: " + c.String()
			bt := build(c)
			// in the scheduled part keep crypto cheap: replace BLS by the next scheme
			var o *obs
			ex := &vsched.Explorer{Body: bt.bodyB(c, &o), MaxPreemptions: s.bound, MaxDeviations: -1, Stop: r.Expired, StopAtFirst: true,
				Check: func(out *vsched.Outcome) (string, string) { return verdict(bt, c, o, out.Deadlock, out.Blocked) },
				OnViolation: func(key, what string, choices []int, out *vsched.Outcome) {
					res.Violations = append(res.Violations, evid.ShardViolation{Key: "C16:" + key, What: what + " [" + c.String() + "]", Replay: map[string]any{"case": c.String(), "choices": choices, "index": i}})
				}}
			if !ex.Run() {
				res.Infra = ex.Diverged
			}
			if !ex.Exhaustive && ex.Violations == 0 {
				res.Capped = "deadline reached inside a part-B scenario"
			}
			res.Counts["executions"] = ex.Executions
			res.Counts["executions_partB"] = ex.Executions
			res.Counts["conflicting"] = ex.Conflicting
			if len(ex.SampleTraces) > 0 {
				res.Sample = map[string]any{"case": c.String(), "schedule": ex.SampleTraces[0]}
			}
			return res
		}
		c := cases[i-len(partB)]
		res.Name = "A: " + c.String()
		bt := build(c)
		var o *obs
		// part A: the default schedule of each configuration under the scheduler (deterministic)
		ex := &vsched.Explorer{Body: bt.body(c, &o), MaxPreemptions: 0, MaxDeviations: -1, MaxExecutions: 1, StopAtFirst: true,
			Check: func(out *vsched.Outcome) (string, string) { return verdict(bt, c, o, out.Deadlock, out.Blocked) },
			OnViolation: func(key, what string, choices []int, out *vsched.Outcome) {
				res.Violations = append(res.Violations, evid.ShardViolation{Key: "C16:" + key, What: what + " [" + c.String() + "]", Replay: map[string]any{"case": c.String(), "choices": choices, "index": i}})
			}}
		if !ex.Run() {
			res.Infra = ex.Diverged
		}
		res.Counts["executions"] = ex.Executions
		res.Counts["executions_partA"] = ex.Executions
		if bt.anyBad {
			res.Counts["blocks_with_invalid_signature"]++
		} else {
			res.Counts["blocks_all_valid"]++
		}
		return res
	}
	if len(os.Args) > 2 && os.Args[1] == "--one" {
		var i int
		fmt.Sscan(os.Args[2], &i)
		fmt.Printf("%+v\n", run(i))
		return
	}
	if idx, ok := evid.ReplayIndex(); ok {
		res := run(idx)
		fmt.Printf("replay scenario %d (%s): %d violation(s)\n", idx, res.Name, len(res.Violations))
		for _, v := range res.Violations {
			fmt.Println(" ", v.Key, v.What)
		}
		if len(res.Violations) > 0 {
			os.Exit(1)
		}
		os.Exit(0)
	}
	tot, _ := r.Sharded(len(partB)+nA, run)
	r.Cov["evaluations"] = tot["executions"]
	r.Cov["distinct_nontrivial"] = tot["blocks_with_invalid_signature"] + tot["conflicting"]
	r.Cov["executions_partA"] = tot["executions_partA"]
	r.Cov["executions_partB"] = tot["executions_partB"]
	r.Cov["blocks_with_invalid_signature"] = tot["blocks_with_invalid_signature"]
	r.Cov["blocks_all_valid"] = tot["blocks_all_valid"]
	r.Cov["preemption_bound_partB"] = bBound
	r.Cov["rule"] = "part A: transaction counts {0,1,3,4,5,7,8,9,12,16,17}(+{2,6,15,31,32,33}) x auth patterns {all ed25519, round-robin ed25519/secp256r1/BLS}(+{all secp256r1, all BLS}) x invalid positions {none, each single, first+last, {3,4,8}} x parallel pools of {1,2,4,16} workers; each block is followed by an all-valid block on the same pool; part B: 7 small blocks, 1-2 workers, every interleaving within the preemption bound, plus 2 (thorough 6) scenarios in which a second thread verifies an all-valid block on the same pool at the same time (one worker: bound 1; two workers: bound 0, thorough 1); oracle: one-by-one VerifyAuth"
	r.Assumptions = []string{"default auth engines (ed25519 batch verifier; other schemes verified per transaction)", "invalid signature = well-formed signature of the same key over a different transaction", "crypto libraries themselves are not instrumented (they are sequential)"}
	r.Finish()
}
