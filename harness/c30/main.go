// C30: read-only action APIs agree with on-chain execution.
//
// The real JSON-RPC server (ExecuteActions, SimulateActions) over a stub api.VM backed by an
// in-memory merkledb, for every action list of <=3 MorpheusVM transfers (to in 3 accounts x
// value in {0,1,v,everything,too much}) from 3 actors (funded, exactly-v, absent) and every
// list of <=2 scripted test actions (57 scripts over 2 keys) plus lists in which an action
// relies on a key declared by another action of the list. Reference: the same actions inside
// one transaction executed by Transaction.PreExecute/Execute on the same state at unit price
// 0. Oracle: ExecuteActions outputs / failure equal the transaction result's; SimulateActions
// outputs equal them, and re-executing the actions in a transaction that declares EXACTLY
// the reported key sets succeeds with the same outputs.
package main

import (
	"bytes"
	"context"
	"errors"
	"fmt"
	"net/http"
	"os"
	"runtime"
	"sync"
	"sync/atomic"

	"github.com/ava-labs/avalanchego/database"
	"github.com/ava-labs/avalanchego/ids"
	"github.com/ava-labs/avalanchego/trace"

	"github.com/ava-labs/hypersdk/api"
	"github.com/ava-labs/hypersdk/api/jsonrpc"
	"github.com/ava-labs/hypersdk/chain"
	"github.com/ava-labs/hypersdk/codec"
	"github.com/ava-labs/hypersdk/examples/morpheusvm/actions"
	mstorage "github.com/ava-labs/hypersdk/examples/morpheusvm/storage"
	"github.com/ava-labs/hypersdk/fees"
	ifees "github.com/ava-labs/hypersdk/internal/fees"
	"github.com/ava-labs/hypersdk/internal/vshim/evid"
	"github.com/ava-labs/hypersdk/state"
	"github.com/ava-labs/hypersdk/state/tstate"
	"github.com/ava-labs/hypersdk/verifh/rig"
)

// ---- stub VM: only what the two endpoints use
type stubVM struct {
	api.VM // nil: any other call panics
	env    *rig.Env
	parser chain.Parser
}

func (s *stubVM) Tracer() trace.Tracer               { return trace.Noop }
func (s *stubVM) GetParser() chain.Parser            { return s.parser }
func (s *stubVM) GetRuleFactory() chain.RuleFactory  { return s.env.RF }
func (s *stubVM) BalanceHandler() chain.BalanceHandler { return s.env.BH }
func (s *stubVM) ImmutableState(context.Context) (state.Immutable, error) {
	return s.env.DB, nil
}
func (s *stubVM) ReadState(ctx context.Context, keys [][]byte) ([][]byte, []error) {
	vals := make([][]byte, len(keys))
	errs := make([]error, len(keys))
	for i, k := range keys {
		vals[i], errs[i] = s.env.DB.GetValue(ctx, k)
	}
	return vals, errs
}

// declAction wraps an action and declares exactly the given keys.
type declAction struct {
	chain.Action
	keys state.Keys
}

func (d *declAction) StateKeys(codec.Address, ids.ID) state.Keys { return d.keys }

const v = 5

type caseSpec struct {
	morpheus bool
	actor    int
	acts     []chain.Action
	what     string
}

var (
	k1 = rig.Key("k1", 1)
	k2 = rig.Key("k2", 1)
)

var stepMenu = []rig.Step{
	{Kind: rig.Get, Key: k1},
	{Kind: rig.Put, Key: k1, Val: []byte("a")},
	{Kind: rig.Put, Key: k2, Val: []byte("b")},
	{Kind: rig.Del, Key: k1},
	{Kind: rig.Del, Key: k2},
	{Kind: rig.Append, Key: k1, Val: []byte("x")},
	{Kind: rig.Fail},
}

func opAct(nonce int, decl []rig.KeyPerm, steps ...int) *rig.OpAction {
	a := &rig.OpAction{Compute: 1, Start: -1, End: -1, Nonce: uint64(nonce), Declared: decl}
	for _, s := range steps {
		a.Script = append(a.Script, stepMenu[s])
	}
	return a
}

var both = []rig.KeyPerm{{Key: k1, Perm: state.All}, {Key: k2, Perm: state.All}}

func zeroRules() *rig.Env { return nil }

func newEnv(morpheus bool) *rig.Env {
	r := rig.DefaultRules()
	r.MinUnitPrice = fees.Dimensions{}
	if morpheus {
		// A: funded, B: exactly v, C: absent (index 2), D: absent actor
		return rig.NewEnv(rig.EnvConfig{Rules: r, BH: &mstorage.BalanceHandler{}, Balances: []uint64{1 << 30, v, 0, 0}})
	}
	return rig.NewEnv(rig.EnvConfig{Rules: r, Balances: []uint64{1 << 30, 0}, State: map[string][]byte{k1: []byte("1")}})
}

var parsers [2]chain.Parser

func init() {
	for i := 0; i < 2; i++ {
		ac := codec.NewTypeParser[chain.Action]()
		au := codec.NewTypeParser[chain.Auth]()
		if i == 1 {
			if err := ac.Register(&actions.Transfer{}, actions.UnmarshalTransfer); err != nil {
				panic(err)
			}
		} else {
			if err := ac.Register(&rig.OpAction{}, rig.UnmarshalOpAction); err != nil {
				panic(err)
			}
		}
		parsers[i] = chain.NewTxTypeParser(ac, au)
	}
}

type verdict struct{ key, what string }

func eqOut(a, b [][]byte) bool {
	if len(a) != len(b) {
		return false
	}
	for i := range a {
		if !bytes.Equal(a[i], b[i]) {
			return false
		}
	}
	return true
}

// onChain executes the actions inside one transaction on the environment's state.
func onChain(env *rig.Env, actor int, acts []chain.Action) (*chain.Result, error) {
	tx := env.MakeTx(actor, acts, 1000, rig.TxOpts{Expiry: 10_000})
	sk, err := tx.StateKeys(env.BH)
	if err != nil {
		return nil, err
	}
	feeRaw, err := env.DB.GetValue(rig.Ctx, chain.FeeKey(env.MM.FeePrefix()))
	if err != nil {
		return nil, err
	}
	fm := ifees.NewManager(feeRaw)
	tsv := tstate.New(0).NewView(sk, env.DB, 0)
	if err := tx.PreExecute(rig.Ctx, fm, env.BH, env.Rules, tsv, 1000); err != nil {
		return nil, err
	}
	return tx.Execute(rig.Ctx, fm, env.BH, env.Rules, tsv, 1000)
}

func runCase(c caseSpec) verdict {
	env := newEnv(c.morpheus)
	pi := 0
	if c.morpheus {
		pi = 1
	}
	vm := &stubVM{env: env, parser: parsers[pi]}
	srv := jsonrpc.NewJSONRPCServer(vm)
	req, _ := http.NewRequest(http.MethodPost, "/", nil)
	actor := rig.Addr(c.actor)
	var raw [][]byte
	var rawB []codec.Bytes
	for _, a := range c.acts {
		raw = append(raw, a.Bytes())
		rawB = append(rawB, a.Bytes())
	}
	ref, err := onChain(env, c.actor, c.acts)
	if err != nil {
		// the transaction itself is invalid (e.g. the actor cannot be charged even a zero fee):
		// there is no on-chain execution to compare with
		return verdict{key: "", what: "no-reference"}
	}
	// ---- ExecuteActions
	var er jsonrpc.ExecuteActionReply
	if err := srv.ExecuteActions(req, &jsonrpc.ExecuteActionArgs{Actor: actor, Actions: raw}, &er); err != nil {
		return verdict{"execute-actions-error", fmt.Sprintf("ExecuteActions returned an error (%v) for a list that executes on chain (success=%v)", err, ref.Success)}
	}
	if ref.Success != (er.Error == "") {
		return verdict{"execute-actions-success-differs", fmt.Sprintf("on chain success=%v (error %q); ExecuteActions error=%q", ref.Success, ref.Error, er.Error)}
	}
	if !eqOut(er.Outputs, ref.Outputs) {
		return verdict{"execute-actions-outputs-differ", fmt.Sprintf("on chain outputs %q, ExecuteActions outputs %q", ref.Outputs, er.Outputs)}
	}
	// ---- SimulateActions
	var sr jsonrpc.SimulateActionsReply
	serr := srv.SimulateActions(req, &jsonrpc.SimulatActionsArgs{Actor: actor, Actions: rawB}, &sr)
	if ref.Success != (serr == nil) {
		return verdict{"simulate-success-differs", fmt.Sprintf("on chain success=%v (error %q); SimulateActions error=%v", ref.Success, ref.Error, serr)}
	}
	if serr != nil {
		return verdict{what: "failing-list"}
	}
	var so [][]byte
	for _, ar := range sr.ActionResults {
		so = append(so, ar.Output)
	}
	if !eqOut(so, ref.Outputs) {
		return verdict{"simulate-outputs-differ", fmt.Sprintf("on chain outputs %q, SimulateActions outputs %q", ref.Outputs, so)}
	}
	// sufficiency of the reported key sets
	var wrapped []chain.Action
	for i, a := range c.acts {
		wrapped = append(wrapped, &declAction{Action: a, keys: sr.ActionResults[i].StateKeys})
	}
	r2, err := onChain(newEnv(c.morpheus), c.actor, wrapped)
	if err != nil {
		return verdict{"simulated-keys-insufficient", fmt.Sprintf("a transaction declaring exactly the reported key sets is invalid: %v", err)}
	}
	if !r2.Success || !eqOut(r2.Outputs, ref.Outputs) {
		return verdict{"simulated-keys-insufficient", fmt.Sprintf("declaring exactly the reported key sets: success=%v error=%q outputs=%q (expected success with %q); reported keys %v", r2.Success, r2.Error, r2.Outputs, ref.Outputs, keysOf(sr))}
	}
	return verdict{what: "ok"}
}

func keysOf(sr jsonrpc.SimulateActionsReply) []string {
	var o []string
	for _, ar := range sr.ActionResults {
		s := "{"
		for k, p := range ar.StateKeys {
			s += fmt.Sprintf("%s:%s ", rig.KeyName(k), p)
		}
		o = append(o, s+"}")
	}
	return o
}

func genCases(thorough bool) []caseSpec {
	var out []caseSpec
	// ---- MorpheusVM transfers
	type xf struct {
		to  int
		val uint64
		vn  string
	}
	var menu []xf
	for to := 0; to < 3; to++ {
		for _, vv := range []struct {
			v uint64
			n string
		}{{0, "0"}, {1, "1"}, {v, "v"}, {1 << 30, "all(A)"}, {1<<30 + 1, "too much"}} {
			menu = append(menu, xf{to, vv.v, vv.n})
		}
	}
	var rec func(cur []xf)
	maxT := 3
	rec = func(cur []xf) {
		if len(cur) > 0 {
			for _, actor := range []int{0, 1, 3} {
				var as []chain.Action
				w := ""
				for i, x := range cur {
					as = append(as, &actions.Transfer{To: rig.Addr(x.to), Value: x.val, Memo: []byte{byte(i)}})
					w += fmt.Sprintf("->%c %s; ", 'A'+x.to, x.vn)
				}
				out = append(out, caseSpec{morpheus: true, actor: actor, acts: as, what: fmt.Sprintf("actor %c transfers %s", 'A'+actor, w)})
			}
		}
		if len(cur) == maxT {
			return
		}
		for _, x := range menu {
			if len(cur) == 2 && !thorough && (x.vn == "0" || x.vn == "too much") {
				continue
			}
			rec(append(cur, x))
		}
	}
	rec(nil)
	// ---- scripted test actions: every script of <=2 steps, lists of <=2 actions
	var scripts [][]int
	for a := range stepMenu {
		scripts = append(scripts, []int{a})
		for b := range stepMenu {
			scripts = append(scripts, []int{a, b})
		}
	}
	for i, s1 := range scripts {
		out = append(out, caseSpec{actor: 0, acts: []chain.Action{opAct(0, both, s1...)}, what: fmt.Sprintf("script %d", i)})
		for j, s2 := range scripts {
			if !thorough && len(s1)+len(s2) > 3 {
				continue
			}
			out = append(out, caseSpec{actor: 0, acts: []chain.Action{opAct(0, both, s1...), opAct(1, both, s2...)}, what: fmt.Sprintf("scripts %d,%d", i, j)})
		}
	}
	// ---- an action that relies on a key declared only by another action of the list
	only1 := []rig.KeyPerm{{Key: k1, Perm: state.All}}
	only2 := []rig.KeyPerm{{Key: k2, Perm: state.All}}
	for _, s := range [][]int{{0}, {1}, {5}, {3}} {
		out = append(out, caseSpec{actor: 0, acts: []chain.Action{opAct(0, only1, 1), opAct(1, only2, append([]int{2}, s...)...)}, what: fmt.Sprintf("second action declares only k2 but also touches k1 (steps %v), first action declares k1", s)})
		out = append(out, caseSpec{actor: 0, acts: []chain.Action{opAct(0, only2, append([]int{2}, s...)...), opAct(1, only1, 1)}, what: fmt.Sprintf("first action declares only k2 but also touches k1 (steps %v), second action declares k1", s)})
	}
	// ---- the same key declared with different permissions by two actions of the list: the
	// transaction scope is the UNION of the declarations
	k1Read := []rig.KeyPerm{{Key: k1, Perm: state.Read}}
	k1All := []rig.KeyPerm{{Key: k1, Perm: state.All}}
	k2All := []rig.KeyPerm{{Key: k2, Perm: state.All}}
	k2Read := []rig.KeyPerm{{Key: k2, Perm: state.Read}}
	out = append(out,
		caseSpec{actor: 0, acts: []chain.Action{opAct(0, k1All, 1), opAct(1, k1Read, 0)}, what: "k1 declared All by a writer, then Read by a reader"},
		caseSpec{actor: 0, acts: []chain.Action{opAct(0, k1All, 5), opAct(1, k1Read, 0), opAct(2, k1Read, 0)}, what: "k1: append (All), read (Read), read (Read)"},
		caseSpec{actor: 0, acts: []chain.Action{opAct(0, k2All, 2), opAct(1, k2Read)}, what: "k2 created (All) then declared Read by an action that does not touch it"},
		caseSpec{actor: 0, acts: []chain.Action{opAct(0, k1Read, 0), opAct(1, k1All, 3)}, what: "k1 declared Read by a reader, then All by a deleter"},
	)
	return out
}

func main() {
	r := evid.Start("C30", "exploration")
	cases := genCases(r.Thorough())
	if idx, ok := evid.ReplayIndex(); ok {
		vd := runCase(cases[idx])
		fmt.Printf("replay case %d (%s): key=%q %s\n", idx, cases[idx].what, vd.key, vd.what)
		if vd.key != "" {
			os.Exit(1)
		}
		os.Exit(0)
	}
	var done, ok, failing, noref atomic.Int64
	var wg sync.WaitGroup
	var mu sync.Mutex
	first := map[string]int{}
	nw := runtime.NumCPU()
	for w := 0; w < nw; w++ {
		wg.Add(1)
		go func(w int) {
			defer wg.Done()
			for i := w; i < len(cases); i += nw {
				if r.Expired() {
					r.Cap("deadline reached")
					return
				}
				vd := runCase(cases[i])
				done.Add(1)
				switch {
				case vd.key != "":
					mu.Lock()
					if old, seen := first[vd.key]; !seen || i < old {
						first[vd.key] = i
					}
					mu.Unlock()
				case vd.what == "ok":
					ok.Add(1)
				case vd.what == "failing-list":
					failing.Add(1)
				default:
					noref.Add(1)
				}
			}
		}(w)
	}
	wg.Wait()
	for k, i := range first {
		vd := runCase(cases[i])
		r.Violation("C30:"+k, vd.what+" ["+cases[i].what+"]", map[string]any{"index": i, "case": cases[i].what})
	}
	_ = errors.Is
	_ = database.ErrNotFound
	r.Sample(map[string]any{"case": cases[len(cases)/3].what})
	r.Cov["evaluations"] = done.Load()
	r.Cov["distinct_nontrivial"] = ok.Load() + failing.Load()
	r.Cov["lists_succeeding_on_chain"] = ok.Load()
	r.Cov["lists_failing_on_chain"] = failing.Load()
	r.Cov["lists_without_on_chain_reference"] = noref.Load()
	r.Cov["rule"] = "MorpheusVM: every list of <=3 transfers over (to in {A,B,C}) x (value in {0,1,v,all,too much}) x actor in {funded, exactly v, absent}; test actions: every list of <=2 scripted actions (57 scripts of <=2 steps over 2 keys) + 8 lists where one action relies on a key declared only by the other; compared with Transaction.PreExecute/Execute of one transaction carrying the same actions on the same state at unit price 0"
	r.Assumptions = []string{"unit price 0 (otherwise the sponsor balance differs by the fee by design)", "action outputs of the enumerated actions do not depend on the action id or timestamp", "stub api.VM backed by merkledb; only the methods the two endpoints call are implemented"}
	r.Finish()
}
