// C26: parallel verification jobs run every task and report the first failure.
// The real internal/workers pool (instrumented) under the controlled scheduler: all
// interleavings of job submission, task execution, completion callbacks and Stop.
package main

import (
	"errors"
	"fmt"
	"os"
	"strconv"
	"strings"

	"github.com/ava-labs/hypersdk/internal/vshim/evid"
	"github.com/ava-labs/hypersdk/internal/vshim/vsched"
	"github.com/ava-labs/hypersdk/internal/workers"
)

type jobSpec struct {
	tasks int
	fail  int // -1 none
}

type scenario struct {
	workers   int
	jobs      []jobSpec
	pipelined bool
	stop      string // "end" (after all waits), "before" (before submitting the last job), "concurrent" (second thread)
	backlog0  bool
	serial    bool
}

func (s scenario) String() string {
	return fmt.Sprintf("workers=%d jobs=%v pipelined=%v stop=%s backlog0=%v serial=%v", s.workers, s.jobs, s.pipelined, s.stop, s.backlog0, s.serial)
}

var errTask = errors.New("task failed")

func scenarios(thorough bool) []scenario {
	var out []scenario
	maxTasks := 2
	ws := []int{1, 2}
	if thorough {
		maxTasks = 3
		ws = []int{1, 2, 3}
	}
	var specs []jobSpec
	for n := 0; n <= maxTasks; n++ {
		for f := -1; f < n; f++ {
			specs = append(specs, jobSpec{n, f})
		}
	}
	for _, w := range ws {
		for _, a := range specs {
			out = append(out, scenario{workers: w, jobs: []jobSpec{a}, stop: "end"})
			out = append(out, scenario{workers: w, jobs: []jobSpec{a}, stop: "concurrent"})
			for _, b := range specs {
				if b.tasks > 2 && a.tasks > 2 {
					continue
				}
				out = append(out, scenario{workers: w, jobs: []jobSpec{a, b}, stop: "end"})
				out = append(out, scenario{workers: w, jobs: []jobSpec{a, b}, pipelined: true, stop: "end"})
				if b.tasks <= 1 {
					out = append(out, scenario{workers: w, jobs: []jobSpec{a, b}, stop: "before"})
				}
				if thorough && a.tasks <= 2 && b.tasks <= 1 {
					out = append(out, scenario{workers: w, jobs: []jobSpec{a, b}, stop: "end", backlog0: true})
					out = append(out, scenario{workers: w, jobs: []jobSpec{a, b}, pipelined: true, stop: "concurrent"})
				}
			}
		}
	}
	// serial pool as the reference implementation of the same interface
	for _, a := range specs {
		out = append(out, scenario{workers: 1, jobs: []jobSpec{a}, stop: "end", serial: true})
	}
	return out
}

type jobObs struct {
	created  bool
	newErr   error
	counts   []int
	waitErr  error
	waited   bool
	cb       int
}

type obs struct {
	jobs        []*jobObs
	mon         *vsched.Monitor
	stopReturned bool
	afterStopErr error
	afterStopChecked bool
}

func build(sc scenario) (func(), func(*vsched.Outcome) (string, string)) {
	var o *obs
	body := func() {
		o = &obs{mon: &vsched.Monitor{}}
		var w workers.Workers
		if sc.serial {
			w = workers.NewSerial()
		} else {
			w = workers.NewParallel(sc.workers, 2)
		}
		for range sc.jobs {
			o.jobs = append(o.jobs, &jobObs{})
		}
		if sc.stop == "concurrent" {
			vsched.Go(func() {
				w.Stop()
			})
		}
		handles := make([]workers.Job, len(sc.jobs))
		create := func(ji int) {
			js := sc.jobs[ji]
			jo := o.jobs[ji]
			jo.counts = make([]int, js.tasks)
			bl := js.tasks
			if sc.backlog0 {
				bl = 0
			}
			j, err := w.NewJob(bl)
			jo.newErr = err
			if err != nil {
				return
			}
			jo.created = true
			handles[ji] = j
		}
		fill := func(ji int) {
			js := sc.jobs[ji]
			jo := o.jobs[ji]
			if !jo.created {
				return
			}
			for t := 0; t < js.tasks; t++ {
				t := t
				handles[ji].Go(func() error {
					// job index as tag; later jobs enter in write mode so that their entry is ordered
					// against every earlier job's exit
					o.mon.Enter(ji > 0, ji)
					jo.counts[t]++
					o.mon.Exit(ji > 0, ji)
					if js.fail == t {
						return errTask
					}
					return nil
				})
			}
			handles[ji].Done(func() { jo.cb++ })
		}
		wait := func(ji int) {
			jo := o.jobs[ji]
			if !jo.created {
				return
			}
			jo.waitErr = handles[ji].Wait()
			jo.waited = true
		}
		if sc.pipelined {
			for ji := range sc.jobs {
				create(ji)
			}
			for ji := range sc.jobs {
				fill(ji)
			}
			for ji := range sc.jobs {
				wait(ji)
			}
		} else {
			for ji := range sc.jobs {
				if sc.stop == "before" && ji == len(sc.jobs)-1 {
					w.Stop()
					o.stopReturned = true
				}
				create(ji)
				fill(ji)
				wait(ji)
			}
		}
		if sc.stop == "end" {
			w.Stop()
			o.stopReturned = true
			if !sc.serial {
				_, o.afterStopErr = w.NewJob(1)
				o.afterStopChecked = true
			}
		}
	}
	check := func(out *vsched.Outcome) (string, string) {
		if out.Deadlock {
			return "deadlock", fmt.Sprintf("pool hangs: %v", out.Blocked)
		}
		stopRace := sc.stop == "concurrent"
		for ji, jo := range o.jobs {
			js := sc.jobs[ji]
			if !jo.created {
				if !(stopRace || (sc.stop == "before" && ji == len(sc.jobs)-1)) {
					return "newjob-failed", fmt.Sprintf("NewJob for job %d failed: %v", ji, jo.newErr)
				}
				if !errors.Is(jo.newErr, workers.ErrShutdown) {
					return "newjob-wrong-error", fmt.Sprintf("NewJob after Stop returned %v", jo.newErr)
				}
				continue
			}
			ran, failedRan := 0, false
			for t, c := range jo.counts {
				if c > 1 {
					return "task-ran-twice", fmt.Sprintf("job %d task %d ran %d times", ji, t, c)
				}
				ran += c
				if c == 1 && js.fail == t {
					failedRan = true
				}
			}
			shutdown := errors.Is(jo.waitErr, workers.ErrShutdown)
			if shutdown && !stopRace {
				return "spurious-shutdown", fmt.Sprintf("job %d reported shutdown although Stop was not called before it", ji)
			}
			if shutdown {
				if ran != 0 {
					return "shutdown-job-ran-tasks", fmt.Sprintf("job %d reported shutdown but ran %d tasks", ji, ran)
				}
				continue
			}
			if js.fail == -1 && ran != js.tasks {
				return "task-not-run", fmt.Sprintf("job %d: %d of %d tasks ran although none fails", ji, ran, js.tasks)
			}
			if failedRan != (jo.waitErr != nil) {
				return "error-iff-failed-task", fmt.Sprintf("job %d: a task failed=%v but Wait returned %v", ji, failedRan, jo.waitErr)
			}
			if jo.waitErr != nil && !errors.Is(jo.waitErr, errTask) {
				return "wrong-error", fmt.Sprintf("job %d: Wait returned %v", ji, jo.waitErr)
			}
			if jo.cb != 1 {
				return "callback-count", fmt.Sprintf("job %d completed but its Done callback ran %d times", ji, jo.cb)
			}
		}
		// a later job's task must not start before every task of an earlier job has finished
		open := map[int]int{}
		for _, e := range o.mon.Log {
			if e.Exit {
				open[e.Tag]--
				continue
			}
			for j, n := range open {
				if j < e.Tag && n > 0 {
					return "jobs-overlap", fmt.Sprintf("a task of job %d started while a task of job %d was still running", e.Tag, j)
				}
			}
			open[e.Tag]++
		}
		// job j+1 must not start before job j ran all the tasks it is going to run
		firstStart := map[int]int{}
		lastEnd := map[int]int{}
		for i, e := range o.mon.Log {
			if !e.Exit {
				if _, ok := firstStart[e.Tag]; !ok {
					firstStart[e.Tag] = i
				}
			} else {
				lastEnd[e.Tag] = i
			}
		}
		for j := range firstStart {
			for k := range lastEnd {
				if k < j && lastEnd[k] > firstStart[j] {
					return "jobs-overlap", fmt.Sprintf("job %d started before job %d completed", j, k)
				}
			}
		}
		if o.afterStopChecked && !errors.Is(o.afterStopErr, workers.ErrShutdown) {
			return "newjob-after-stop", fmt.Sprintf("NewJob after Stop returned %v", o.afterStopErr)
		}
		if o.stopReturned && !sc.serial {
			// Stop returned: every pool goroutine must have exited (only Done-callback waiters
			// of jobs that never completed may remain)
			for _, p := range out.Parked {
				if !strings.HasSuffix(p, ":chan recv") {
					return "stop-returned-with-live-workers", fmt.Sprintf("Stop returned but pool goroutines are still alive: %v", out.Parked)
				}
			}
			nShutdownJobs := 0
			for _, jo := range o.jobs {
				if jo.created && errors.Is(jo.waitErr, workers.ErrShutdown) {
					nShutdownJobs++
				}
			}
			if len(out.Parked) > nShutdownJobs {
				return "stop-returned-with-live-workers", fmt.Sprintf("Stop returned but pool goroutines are still alive: %v", out.Parked)
			}
		}
		lastSig = ""
		for _, jo := range o.jobs {
			lastSig += fmt.Sprint(jo.created, jo.counts, jo.waitErr, jo.cb, ";")
		}
		return "", ""
	}
	return body, check
}

var lastSig string

func runScenario(i int, sc scenario, r *evid.Run, bound int) evid.ShardResult {
	body, check := build(sc)
	res := evid.ShardResult{Name: sc.String(), Counts: map[string]int{}}
	sigs := map[string]struct{}{}
	ex := &vsched.Explorer{
		Body: body, MaxPreemptions: bound, MaxDeviations: -1, Stop: r.Expired,
		Check: func(out *vsched.Outcome) (string, string) {
			k, w := check(out)
			if k == "" {
				sigs[lastSig] = struct{}{}
			}
			return k, w
		},
		OnViolation: func(key, what string, choices []int, out *vsched.Outcome) {
			if len(res.Violations) < 3 {
				res.Violations = append(res.Violations, evid.ShardViolation{Key: "C26:" + key, What: what + " [" + sc.String() + "]", Replay: map[string]any{"scenario": sc.String(), "choices": choices, "scenario_index": i}})
			}
		},
		StopAtFirst: true,
	}
	if !ex.Run() {
		res.Infra = ex.Diverged
	}
	if !ex.Exhaustive && ex.Violations == 0 {
		res.Capped = "deadline reached inside a scenario"
	}
	res.Counts["executions"] = ex.Executions
	res.Counts["complete"] = ex.Complete
	res.Counts["cut"] = ex.CutRuns
	res.Counts["conflicting"] = ex.Conflicting
	res.Counts["distinct_outcomes"] = len(sigs)
	if len(ex.SampleTraces) > 0 && i%50 == 0 {
		res.Sample = map[string]any{"scenario": sc.String(), "schedule": ex.SampleTraces[len(ex.SampleTraces)-1]}
	}
	return res
}

func main() {
	r := evid.Start("C26", "exploration")
	scs := scenarios(r.Thorough())
	bound := evid.Pick(r, 2, 3)
	if s := os.Getenv("C26_BOUND"); s != "" {
		bound, _ = strconv.Atoi(s)
	}
	if evid.RacePass() {
		iters := evid.Pick(r, 20, 200)
		for i := 0; i < len(scs); i += 5 {
			if scs[i].stop == "concurrent" {
				continue // NewJob || Stop can panic natively (known finding); the race pass looks for data races only
			}
			body, _ := build(scs[i])
			for k := 0; k < iters; k++ {
				body()
			}
		}
		return
	}
	if len(os.Args) > 2 && os.Args[1] == "--one" {
		i, _ := strconv.Atoi(os.Args[2])
		fmt.Printf("%+v\n", runScenario(i, scs[i], r, bound))
		return
	}
	tot, _ := r.Sharded(len(scs), func(i int) evid.ShardResult { return runScenario(i, scs[i], r, bound) })
	r.Cov["evaluations"] = tot["executions"]
	r.Cov["distinct_nontrivial"] = tot["conflicting"]
	r.Cov["complete_executions"] = tot["complete"]
	r.Cov["cut_at_visited_state"] = tot["cut"]
	r.Cov["scenarios"] = len(scs)
	r.Cov["distinct_outcomes"] = tot["distinct_outcomes"]
	r.Cov["preemption_bound"] = bound
	r.Cov["rule"] = "pools of 1-2 (thorough 1-3) workers x 1-2 jobs (sequential and pipelined) x 0-2 (3) tasks x every failing position x Stop {after all, before the last job, concurrently from a second thread} x every interleaving up to the preemption bound (HB-pruned); non-trivial = complete executions in which >=2 threads touched a common object"
	r.Assumptions = []string{"sequential consistency; data races are the business of the separate -race pass", "the search of a scenario stops at its first violation"}
	r.Finish()
}
