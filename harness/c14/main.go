// C14: the unit estimate used to set a generated transaction's maximum fee is never below
// the units the signed transaction actually consumes.
//
// Complete grid: action counts 0..MaxActionsPerTx, two-size mixes (k actions of size a then
// n-k of size b) over a size alphabet around the varint-length boundaries, key sets per
// action (0..2 keys, shared or distinct, chunk sizes 1/5), three auth schemes, timestamps
// with short and long varints, through the real chain.EstimateUnits and
// chain.GenerateTransaction; oracle: per dimension estimate >= Transaction.Units of the signed
// transaction, and MaxFee >= the fee at the same prices.
package main

import (
	"context"
	"encoding/binary"
	"fmt"
	"math/big"
	"os"
	"runtime"
	"sync"
	"sync/atomic"

	"github.com/ava-labs/avalanchego/ids"

	"github.com/ava-labs/hypersdk/chain"
	"github.com/ava-labs/hypersdk/codec"
	"github.com/ava-labs/hypersdk/examples/morpheusvm/actions"
	mstorage "github.com/ava-labs/hypersdk/examples/morpheusvm/storage"
	"github.com/ava-labs/hypersdk/fees"
	"github.com/ava-labs/hypersdk/internal/vshim/evid"
	"github.com/ava-labs/hypersdk/state"
	"github.com/ava-labs/hypersdk/verifh/rig"
	"github.com/ava-labs/hypersdk/verifh/rigkeys"
)

// padAction is an action whose encoding has exactly Size bytes and which declares Keys.
type padAction struct {
	Size   int
	Keys   []string
	Idx    byte
	FromID bool // additionally declares a key derived from the action id ("fresh object" keys)
}

func (*padAction) GetTypeID() uint8                      { return 9 }
func (*padAction) ValidRange(chain.Rules) (int64, int64) { return -1, -1 }
func (*padAction) ComputeUnits(chain.Rules) uint64       { return 3 }
func (a *padAction) Bytes() []byte {
	b := make([]byte, a.Size)
	b[0] = 9
	if a.Size > 1 {
		b[1] = a.Idx
	}
	return b
}
func (a *padAction) StateKeys(_ codec.Address, actionID ids.ID) state.Keys {
	ks := state.Keys{}
	if a.FromID {
		ks[key(string(actionID[:8]), 2)] = state.All
	}
	for _, k := range a.Keys {
		ks[k] = state.All
	}
	return ks
}
func (*padAction) Execute(context.Context, chain.Rules, state.Mutable, int64, codec.Address, ids.ID) ([]byte, error) {
	return nil, nil
}

type caseSpec struct {
	scheme    string
	n, k      int
	a, b      int  // sizes; -1 = morpheus transfer with memo len = the other field
	keyMode   int  // 0 none, 1 one shared key, 2 one distinct key per action, 3 two keys (shared chunk 5 + distinct chunk 1), 4 shared key + key derived from the action id
	zeroChain bool // chain id 0 (canoto omits zero fields; the default here is a non-zero chain id)
	ts        int64
	morph     bool
}

func (c caseSpec) String() string {
	return fmt.Sprintf("auth=%s actions=%d (%d of size %d then %d of size %d) keyMode=%d timestamp=%d morpheusTransfer=%v zeroChainID=%v", c.scheme, c.n, c.k, c.a, c.n-c.k, c.b, c.keyMode, c.ts, c.morph, c.zeroChain)
}

func key(name string, chunks uint16) string {
	b := append([]byte{0xEE}, name...)
	return string(binary.BigEndian.AppendUint16(b, chunks))
}

func (c caseSpec) actions() []chain.Action {
	var out []chain.Action
	for i := 0; i < c.n; i++ {
		sz := c.a
		if i >= c.k {
			sz = c.b
		}
		if c.morph {
			memo := make([]byte, sz)
			var to codec.Address
			to[0] = 1
			to[1] = byte(i % 3)
			out = append(out, &actions.Transfer{To: to, Value: uint64(i + 1), Memo: memo})
			continue
		}
		a := &padAction{Size: sz, Idx: byte(i)}
		switch c.keyMode {
		case 1:
			a.Keys = []string{key("s", 1)}
		case 2:
			a.Keys = []string{key(fmt.Sprintf("d%d", i), 1)}
		case 3:
			a.Keys = []string{key("s", 5), key(fmt.Sprintf("d%d", i), 1)}
		case 4:
			a.Keys = []string{key("s", 1)}
			a.FromID = true
		}
		out = append(out, a)
	}
	return out
}

type verdict struct{ key, what string }

var priceGrid = []fees.Dimensions{{0, 0, 0, 0, 0}, {1, 1, 1, 1, 1}, {100, 100, 100, 100, 100}, {1 << 30, 3, 1 << 20, 7, 1}}

func runCase(c caseSpec) verdict {
	rules := rig.DefaultRules()
	rules.ChainID = ids.ID{0xff, 0xfe, 0xfd, 0xfc, 0xfb, 0xfa, 0xf9, 0xf8, 0xf7, 0xf6, 0xf5, 0xf4, 0xf3, 0xf2, 0xf1, 0xf0, 0xff, 0xfe, 0xfd, 0xfc, 0xfb, 0xfa, 0xf9, 0xf8, 0xf7, 0xf6, 0xf5, 0xf4, 0xf3, 0xf2, 0xf1, 0xf0}
	if c.zeroChain {
		rules.ChainID = ids.Empty
	}
	if c.n > int(rules.MaxActionsPerTx) {
		rules.MaxActionsPerTx = 255
	}
	var bh chain.BalanceHandler = rig.NewEnvLite(rules, nil).BH
	if c.morph {
		bh = &mstorage.BalanceHandler{}
	}
	f := rigkeys.Factory(c.scheme, 0)
	as := c.actions()
	est, err := chain.EstimateUnits(rules, as, f)
	if err != nil {
		return verdict{"estimate-error", err.Error()}
	}
	rf := rig.NewEnvLite(rules, bh).RF
	for _, prices := range priceGrid {
		tx, err := chain.GenerateTransaction(rf, prices, c.ts, as, f)
		if err != nil {
			return verdict{"generate-error", err.Error()}
		}
		act, err := tx.Units(bh, rules)
		if err != nil {
			return verdict{"units-error", err.Error()}
		}
		{
			for d := 0; d < fees.FeeDimensions; d++ {
				if est[d] < act[d] {
					return verdict{fmt.Sprintf("estimate-below-actual:%s", []string{"bandwidth", "compute", "read", "allocate", "write"}[d]),
						fmt.Sprintf("estimated units %v, units of the signed transaction %v (size %d bytes)", est, act, tx.Size())}
				}
			}
		}
		fee := new(big.Int)
		for d := range act {
			fee.Add(fee, new(big.Int).Mul(new(big.Int).SetUint64(act[d]), new(big.Int).SetUint64(prices[d])))
		}
		if new(big.Int).SetUint64(tx.Base.MaxFee).Cmp(fee) < 0 {
			return verdict{"maxfee-below-fee", fmt.Sprintf("generated MaxFee %d < fee %s at the same prices %v", tx.Base.MaxFee, fee, prices)}
		}
	}
	return verdict{}
}

func genCases(thorough bool) []caseSpec {
	sizes := []int{1, 2, 64, 126, 127, 128, 129, 1000}
	if thorough {
		sizes = append(sizes, 16383, 16384, 16385)
	}
	tss := []int64{1, 1_700_000_000_000, 1 << 62}
	counts := []int{}
	for n := 0; n <= 16; n++ {
		counts = append(counts, n)
	}
	// rules may raise MaxActionsPerTx up to 255 (uint8)
	counts = append(counts, 17, 20, 24, 25, 32, 36, 48, 64, 128, 255)
	var out []caseSpec
	for _, sch := range rigkeys.Schemes {
		for _, n := range counts {
			for _, a := range sizes {
				for _, b := range sizes {
					for k := 0; k <= n; k++ {
						if n > 0 && a == b && k != n {
							continue // homogeneous list counted once
						}
						if a != b && (k == 0 || k == n) {
							continue
						}
						if !thorough && a != b && k != 1 && k != n/2 && k != n-1 {
							continue
						}
						for km := 0; km < 5; km++ {
							if km > 0 && (a != b) {
								continue // key sets vary on homogeneous lists
							}
							for _, ts := range tss {
								if ts != tss[1] && a != b {
									continue
								}
								out = append(out, caseSpec{scheme: sch, n: n, k: k, a: a, b: b, keyMode: km, ts: ts})
								if ts == tss[1] && a == b && km <= 1 {
									out = append(out, caseSpec{scheme: sch, n: n, k: k, a: a, b: b, keyMode: km, ts: ts, zeroChain: true})
								}
							}
						}
						if n == 0 {
							break
						}
					}
					if n == 0 {
						break
					}
				}
				if n == 0 {
					break
				}
			}
			// morpheus transfers with memo lengths
			for _, memo := range []int{0, 1, 100, 256} {
				out = append(out, caseSpec{scheme: sch, n: n, k: n, a: memo, b: memo, ts: tss[1], morph: true})
			}
		}
	}
	return out
}

func main() {
	r := evid.Start("C14", "exploration")
	cases := genCases(r.Thorough())
	if idx, ok := evid.ReplayIndex(); ok {
		vd := runCase(cases[idx])
		fmt.Printf("replay case %d: %s\n  verdict key=%q what=%s\n", idx, cases[idx], vd.key, vd.what)
		if vd.key != "" {
			os.Exit(1)
		}
		os.Exit(0)
	}
	var done, viol atomic.Int64
	var wg sync.WaitGroup
	nw := runtime.NumCPU()
	firstBad := map[string]int{}
	var mu sync.Mutex
	for w := 0; w < nw; w++ {
		wg.Add(1)
		go func(w int) {
			defer wg.Done()
			for i := w; i < len(cases); i += nw {
				if r.Expired() {
					r.Cap("deadline reached")
					return
				}
				vd := runCase(cases[i])
				done.Add(1)
				if vd.key != "" {
					viol.Add(1)
					mu.Lock()
					if old, ok := firstBad[vd.key]; !ok || i < old {
						firstBad[vd.key] = i
					}
					mu.Unlock()
				}
			}
		}(w)
	}
	wg.Wait()
	for k, i := range firstBad {
		vd := runCase(cases[i])
		r.Violation("C14:"+k, vd.what+" ["+cases[i].String()+"]", map[string]any{"case": cases[i].String(), "index": i})
	}
	r.Sample(map[string]any{"case": cases[len(cases)/2].String()})
	r.Cov["evaluations"] = done.Load()
	r.Cov["distinct_nontrivial"] = done.Load()
	r.Cov["cases_violating"] = viol.Load()
	r.Cov["rule"] = "complete grid: 3 auth schemes x action count {0..16,17,20,24,25,32,36,48,64,128,255} x (homogeneous size in {1,2,64,126,127,128,129,1000[,16383,16384,16385]} x 4 key-set modes x 3 timestamps (1, 1.7e12, 2^62); two-size mixes k/n-k) + MorpheusVM transfers with memo length {0,1,100,256}; for each: EstimateUnits vs Units of the transaction generated and signed by GenerateTransaction at 4 price vectors"
	r.Assumptions = []string{"rules = defaults (MaxActionsPerTx 16; 255 for the lists longer than 16, sponsor key chunks as declared by the rules and used by the balance handler)", "deterministic keys (sizes of auth encodings do not depend on the key)"}
	r.Finish()
}
