// C12: block resource use is metered from declared keys and capped per block.
// (1) Transaction.Units over declared key sets x rule costs against math/big (overflow =>
// error); (2) Manager.Consume all-or-nothing over consumption states; (3) block level:
// verified and built blocks under tight per-dimension limits.
package main

import (
	"encoding/binary"
	"errors"
	"fmt"
	"math/big"

	"github.com/ava-labs/avalanchego/ids"

	"github.com/ava-labs/hypersdk/chain"
	"github.com/ava-labs/hypersdk/fees"
	ifees "github.com/ava-labs/hypersdk/internal/fees"
	"github.com/ava-labs/hypersdk/internal/validitywindow/validitywindowtest"
	"github.com/ava-labs/hypersdk/internal/vshim/evid"
	"github.com/ava-labs/hypersdk/internal/vshim/vsched"
	"github.com/ava-labs/hypersdk/internal/workers"
	"github.com/ava-labs/hypersdk/state"
	"github.com/ava-labs/hypersdk/verifh/rig"
)

const maxU = ^uint64(0)

func key(name string, chunks uint16) string { return rig.Key(name, chunks) }

func bu(x uint64) *big.Int { return new(big.Int).SetUint64(x) }

var otherErr int

func main() {
	r := evid.Start("C12", "exploration")
	evals, nontriv := 0, 0
	// ---------- (1) Units
	chunkVals := []uint16{0, 1, 2, 0xFFFF}
	costs := []uint64{0, 1, 5, 1 << 63, maxU}
	if !r.Thorough() {
		costs = []uint64{0, 5, 1 << 63, maxU}
	}
	type keyset struct {
		a1, a2 []rig.KeyPerm // declared by action 1 / action 2
	}
	var sets []keyset
	names := []string{"x", "y", "z"}
	// 0..3 distinct keys with chunk suffixes, optionally duplicated across the two actions
	var rec func(i int, cur []rig.KeyPerm)
	rec = func(i int, cur []rig.KeyPerm) {
		sets = append(sets, keyset{append([]rig.KeyPerm{}, cur...), nil})
		if len(cur) > 0 {
			// the same first key declared again by a second action (with another permission)
			sets = append(sets, keyset{append([]rig.KeyPerm{}, cur...), []rig.KeyPerm{{Key: cur[0].Key, Perm: state.Read}}})
		}
		if i == len(names) {
			return
		}
		for _, c := range chunkVals {
			rec(i+1, append(cur, rig.KeyPerm{Key: key(names[i], c), Perm: state.All}))
		}
	}
	rec(0, nil)
	for _, ks := range sets {
		for _, kr := range costs {
			for _, vr := range costs {
				for _, base := range []uint64{1, maxU} {
					for _, comp := range []uint64{1, maxU} {
						evals++
						rules := rig.DefaultRules()
						rules.BaseComputeUnits = base
						rules.StorageKeyReadUnits, rules.StorageValueReadUnits = kr, vr
						rules.StorageKeyAllocateUnits, rules.StorageValueAllocateUnits = vr, kr
						rules.StorageKeyWriteUnits, rules.StorageValueWriteUnits = kr, kr
						env := rig.NewEnvLite(rules, nil)
						actions := []chain.Action{&rig.OpAction{Compute: comp, Declared: ks.a1, Start: -1, End: -1}}
						if ks.a2 != nil {
							actions = append(actions, &rig.OpAction{Compute: 3, Nonce: 1, Declared: ks.a2, Start: -1, End: -1})
						}
						tx := env.MakeTx(0, actions, 1000, rig.TxOpts{AuthUnits: 7})
						// reference
						union := map[string]bool{}
						for _, d := range append(append([]rig.KeyPerm{}, ks.a1...), ks.a2...) {
							union[d.Key] = true
						}
						for k := range env.BH.SponsorStateKeys(rig.Addr(0)) {
							union[k] = true
						}
						compute := new(big.Int).Add(bu(base), bu(comp))
						if ks.a2 != nil {
							compute.Add(compute, bu(3))
						}
						compute.Add(compute, bu(7))
						reads, allocs, writes := new(big.Int), new(big.Int), new(big.Int)
						for k := range union {
							c := bu(uint64(binary.BigEndian.Uint16([]byte(k[len(k)-2:]))))
							reads.Add(reads, bu(kr)).Add(reads, new(big.Int).Mul(c, bu(vr)))
							allocs.Add(allocs, bu(vr)).Add(allocs, new(big.Int).Mul(c, bu(kr)))
							writes.Add(writes, bu(kr)).Add(writes, new(big.Int).Mul(c, bu(kr)))
						}
						overflow := !compute.IsUint64() || !reads.IsUint64() || !allocs.IsUint64() || !writes.IsUint64()
						got, err := tx.Units(env.BH, env.Rules)
						rep := map[string]any{"keys1": fmt.Sprint(ks.a1), "keys2": fmt.Sprint(ks.a2), "keyCost": kr, "valueCost": vr, "base": base, "actionCompute": comp}
						if overflow {
							if err == nil {
								r.Violation("C12:units-overflow-accepted", fmt.Sprintf("units overflow 64 bits but Units() returned %v", got), rep)
							}
							nontriv++
							continue
						}
						want := fees.Dimensions{uint64(tx.Size()), compute.Uint64(), reads.Uint64(), allocs.Uint64(), writes.Uint64()}
						if err != nil || got != want {
							r.Violation("C12:units-differ-from-rule", fmt.Sprintf("Units()=%v,%v; rule gives %v", got, err, want), rep)
						}
						if len(union) > 1 {
							nontriv++
						}
					}
				}
			}
		}
	}
	r.Sample(map[string]any{"keys": "x/65535=all,y/2=all + sponsor key", "keyCost": 5, "valueCost": uint64(1) << 63, "expected": "overflow => error"})
	// ---------- (2) Consume
	lim := fees.Dimensions{10, 1 << 63, maxU, 0, 5}
	states := []uint64{0, 1}
	for _, c0 := range []uint64{0, 9, 10} {
		for _, c2 := range []uint64{0, maxU - 1, maxU} {
			for _, c4 := range states {
				for _, u0 := range []uint64{0, 1, 2, maxU} {
					for _, u2 := range []uint64{0, 1, 2, maxU} {
						for _, u3 := range []uint64{0, 1} {
							for _, u4 := range []uint64{0, 4, 5, maxU} {
								evals++
								m := ifees.NewManager(nil)
								cons := fees.Dimensions{c0, 7, c2, 0, c4}
								for d := fees.Dimension(0); d < fees.FeeDimensions; d++ {
									m.SetLastConsumed(d, cons[d])
								}
								u := fees.Dimensions{u0, 3, u2, u3, u4}
								fits := true
								for d := 0; d < fees.FeeDimensions; d++ {
									if new(big.Int).Add(bu(cons[d]), bu(u[d])).Cmp(bu(lim[d])) > 0 {
										fits = false
									}
								}
								ok, _ := m.Consume(u, lim)
								after := m.UnitsConsumed()
								rep := map[string]any{"consumed": cons, "units": u, "limit": lim}
								if ok != fits {
									r.Violation("C12:consume-verdict", fmt.Sprintf("Consume(%v) on %v limit %v = %v, expected %v", u, cons, lim, ok, fits), rep)
									continue
								}
								if !ok && after != cons {
									r.Violation("C12:rejected-consume-changed-state", fmt.Sprintf("rejected Consume changed consumption %v -> %v", cons, after), rep)
								}
								if ok {
									for d := 0; d < fees.FeeDimensions; d++ {
										if after[d] != cons[d]+u[d] {
											r.Violation("C12:consume-sum", fmt.Sprintf("after Consume: %v, expected %v + %v", after, cons, u), rep)
										}
									}
								}
								if !ok {
									nontriv++
								}
							}
						}
					}
				}
			}
		}
	}
	// ---------- (3) block level
	vsched.FreezeClock(10_000)
	vw := &validitywindowtest.MockTimeValidityWindow[*chain.Transaction]{}
	mkTx := func(env *rig.Env, i int, nkeys int) *chain.Transaction {
		var decl []rig.KeyPerm
		for k := 0; k < nkeys; k++ {
			decl = append(decl, rig.KeyPerm{Key: key(fmt.Sprintf("b%d_%d", i, k), 1), Perm: state.All})
		}
		return env.MakeTx(i, []chain.Action{&rig.OpAction{Compute: uint64(1 + i), Nonce: uint64(i), Declared: decl, Start: -1, End: -1}}, 10_000, rig.TxOpts{})
	}
	for _, nkeys := range [][]int{{1, 1, 1}, {0, 2, 1}, {2, 0, 0}, {1, 2, 3}} {
		// learn per-tx units with generous limits
		probe := rig.NewEnv(rig.EnvConfig{Balances: []uint64{1 << 50, 1 << 50, 1 << 50}, Height: 5, Timestamp: 9_000})
		var units []fees.Dimensions
		for i := range nkeys {
			u, err := mkTx(probe, i, nkeys[i]).Units(probe.BH, probe.Rules)
			if err != nil {
				evid.Infra("%v", err)
			}
			units = append(units, u)
		}
		for dim := fees.Dimension(0); dim < fees.FeeDimensions; dim++ {
			prefix := uint64(0)
			for cut := 0; cut <= len(nkeys); cut++ {
				if cut > 0 {
					prefix += units[cut-1][dim]
				}
				for _, delta := range []int64{-1, 0} {
					if int64(prefix)+delta < 0 {
						continue
					}
					limitD := uint64(int64(prefix) + delta)
					rules := rig.DefaultRules()
					rules.MaxBlockUnits[dim] = limitD
					rules.WindowTargetUnits[dim] = 1 // so the builder stops at the first non-fitting tx in that dimension
					env := rig.NewEnv(rig.EnvConfig{Rules: rules, Balances: []uint64{1 << 50, 1 << 50, 1 << 50}, Height: 5, Timestamp: 9_000})
					var txs []*chain.Transaction
					for i := range nkeys {
						txs = append(txs, mkTx(env, i, nkeys[i]))
					}
					rep := map[string]any{"txKeys": nkeys, "dimension": int(dim), "limit": limitD, "txUnits": units}
					// verify
					evals++
					total := uint64(0)
					for _, u := range units {
						total += u[dim]
					}
					blk := env.MakeBlock(env.DB, ids.Empty, 6, 10_000, txs)
					out, verr := env.NewProcessor(2, 2, workers.NewSerial(), vw, nil).Execute(rig.Ctx, env.DB, blk, true)
					if total > limitD {
						if verr == nil {
							r.Violation("C12:verify-accepts-over-limit-block", fmt.Sprintf("block consuming %d in dimension %d verifies under limit %d", total, dim, limitD), rep)
						} else if !errors.Is(verr, chain.ErrInvalidUnitsConsumed) {
							otherErr++ // rejected, with another error value: counted (the statement fixes the verdict, not the error)
						}
						nontriv++
					} else if verr != nil {
						r.Violation("C12:verify-rejects-fitting-block", fmt.Sprintf("block consuming %d in dimension %d rejected under limit %d: %v", total, dim, limitD, verr), rep)
					} else {
						var sum fees.Dimensions
						for _, res := range out.ExecutionResults.Results {
							for d := range sum {
								sum[d] += res.Units[d]
							}
						}
						if sum != out.ExecutionResults.UnitsConsumed {
							r.Violation("C12:recorded-consumption-differs-from-sum", fmt.Sprintf("recorded %v, sum of transaction units %v", out.ExecutionResults.UnitsConsumed, sum), rep)
						}
					}
					// build
					evals++
					mp := rig.NewMempool(10, 10)
					mp.Add(rig.Ctx, txs)
					eb, ob, berr := env.NewBuilder(mp, vw, 1, 0).BuildBlock(rig.Ctx, nil, env.ParentOutput(5, 9_000))
					if berr != nil {
						if !errors.Is(berr, chain.ErrNoTxs) {
							r.Violation("C12:build-error", fmt.Sprintf("builder failed: %v", berr), rep)
						}
						continue
					}
					var sum fees.Dimensions
					for _, res := range ob.ExecutionResults.Results {
						for d := range sum {
							sum[d] += res.Units[d]
						}
					}
					cons := ob.ExecutionResults.UnitsConsumed
					if sum != cons {
						r.Violation("C12:built-consumption-differs-from-sum", fmt.Sprintf("built block records %v, its %d transactions sum to %v (a skipped transaction must leave consumption unchanged)", cons, len(eb.Txs), sum), rep)
					}
					for d := range cons {
						if cons[d] > rules.MaxBlockUnits[d] {
							r.Violation("C12:built-block-over-limit", fmt.Sprintf("built block consumes %d in dimension %d, limit %d", cons[d], d, rules.MaxBlockUnits[d]), rep)
						}
					}
					if len(eb.Txs) < len(txs) {
						nontriv++
					}
				}
			}
		}
	}
	r.Cov["over_limit_blocks_rejected_with_another_error"] = otherErr
	r.Cov["evaluations"] = evals
	r.Cov["distinct_nontrivial"] = nontriv
	r.Cov["rule"] = fmt.Sprintf("(1) %d declared key sets (0-3 keys x chunk suffix {0,1,2,65535}, a key re-declared by a second action, plus the sponsor key) x key/value costs %v x base/action compute {1, 2^64-1}; (2) Manager.Consume over consumption states x unit vectors at and around three limits; (3) 4 three-transaction blocks x 5 dimensions x limits at every prefix sum (and one below) through Processor.Execute and Builder.BuildBlock; non-trivial = overflow cases, multi-key sets, rejected consumes, over-limit blocks, blocks where the builder skipped a transaction", len(sets), costs)
	r.Finish()
}
