module github.com/ava-labs/hypersdk/verifh

go 1.23.7

require (
	github.com/ava-labs/avalanchego v1.13.1-rc.0.0.20250414210208-c8b3f57d2a25
	github.com/ava-labs/hypersdk v0.0.0-00010101000000-000000000000
	github.com/ava-labs/hypersdk/examples/morpheusvm v0.0.0-00010101000000-000000000000
	github.com/prometheus/client_golang v1.16.0
	github.com/supranational/blst v0.3.14
)

require (
	filippo.io/edwards25519 v1.0.0 // indirect
	github.com/DataDog/zstd v1.5.2 // indirect
	github.com/StephenButtolph/canoto v0.15.0 // indirect
	github.com/beorn7/perks v1.0.1 // indirect
	github.com/cenkalti/backoff/v4 v4.2.1 // indirect
	github.com/cespare/xxhash/v2 v2.3.0 // indirect
	github.com/cockroachdb/errors v1.9.1 // indirect
	github.com/cockroachdb/logtags v0.0.0-20230118201751-21c54148d20b // indirect
	github.com/cockroachdb/pebble v0.0.0-20230928194634-aa077af62593 // indirect
	github.com/cockroachdb/redact v1.1.3 // indirect
	github.com/cockroachdb/tokenbucket v0.0.0-20230807174530-cc333fc44b06 // indirect
	github.com/davecgh/go-spew v1.1.1 // indirect
	github.com/getsentry/sentry-go v0.18.0 // indirect
	github.com/go-logr/logr v1.4.1 // indirect
	github.com/go-logr/stdr v1.2.2 // indirect
	github.com/gogo/protobuf v1.3.2 // indirect
	github.com/golang/protobuf v1.5.4 // indirect
	github.com/golang/snappy v0.0.5-0.20220116011046-fa5810519dcb // indirect
	github.com/google/btree v1.1.2 // indirect
	github.com/google/renameio/v2 v2.0.0 // indirect
	github.com/gorilla/rpc v1.2.0 // indirect
	github.com/gorilla/websocket v1.5.0 // indirect
	github.com/grpc-ecosystem/grpc-gateway/v2 v2.16.0 // indirect
	github.com/hdevalence/ed25519consensus v0.2.0 // indirect
	github.com/kr/pretty v0.3.1 // indirect
	github.com/kr/text v0.2.0 // indirect
	github.com/matttproud/golang_protobuf_extensions v1.0.4 // indirect
	github.com/mr-tron/base58 v1.2.0 // indirect
	github.com/neilotoole/errgroup v0.1.6 // indirect
	github.com/onsi/ginkgo/v2 v2.13.1 // indirect
	github.com/pkg/errors v0.9.1 // indirect
	github.com/pmezard/go-difflib v1.0.0 // indirect
	github.com/prometheus/client_model v0.3.0 // indirect
	github.com/prometheus/common v0.42.0 // indirect
	github.com/prometheus/procfs v0.10.1 // indirect
	github.com/rogpeppe/go-internal v1.12.0 // indirect
	github.com/stretchr/testify v1.10.0 // indirect
	go.opentelemetry.io/otel v1.22.0 // indirect
	go.opentelemetry.io/otel/exporters/otlp/otlptrace v1.22.0 // indirect
	go.opentelemetry.io/otel/exporters/otlp/otlptrace/otlptracegrpc v1.22.0 // indirect
	go.opentelemetry.io/otel/exporters/otlp/otlptrace/otlptracehttp v1.22.0 // indirect
	go.opentelemetry.io/otel/metric v1.22.0 // indirect
	go.opentelemetry.io/otel/sdk v1.22.0 // indirect
	go.opentelemetry.io/otel/trace v1.22.0 // indirect
	go.opentelemetry.io/proto/otlp v1.0.0 // indirect
	go.uber.org/atomic v1.11.0 // indirect
	go.uber.org/multierr v1.11.0 // indirect
	go.uber.org/zap v1.26.0 // indirect
	golang.org/x/crypto v0.35.0 // indirect
	golang.org/x/exp v0.0.0-20241215155358-4a5509556b9e // indirect
	golang.org/x/net v0.36.0 // indirect
	golang.org/x/sync v0.11.0 // indirect
	golang.org/x/sys v0.30.0 // indirect
	golang.org/x/term v0.29.0 // indirect
	golang.org/x/text v0.22.0 // indirect
	gonum.org/v1/gonum v0.11.0 // indirect
	google.golang.org/genproto/googleapis/api v0.0.0-20240604185151-ef581f913117 // indirect
	google.golang.org/genproto/googleapis/rpc v0.0.0-20240827150818-7e3bb234dfed // indirect
	google.golang.org/grpc v1.66.0 // indirect
	google.golang.org/protobuf v1.35.2 // indirect
	gopkg.in/natefinch/lumberjack.v2 v2.0.0 // indirect
	gopkg.in/yaml.v3 v3.0.1 // indirect
)

replace github.com/ava-labs/hypersdk => /repo

replace github.com/ava-labs/hypersdk/examples/morpheusvm => /repo/examples/morpheusvm
