// C06: token supply is conserved except for burned fees (reference VM).
//
// Every block of 1 transaction with 1..3 (thorough 4) MorpheusVM transfers, and every block
// of 2 transactions (sponsors A and B, <=2 transfers each), among 3 accounts, over a grid of
// genesis balances (absent, exactly the fee, fee+v, large, 2^64-1) and transfer values
// (0, 1, v, the whole spendable balance, one more than that, 2^64-1), is executed by the real
// chain.Processor with the real morpheusvm BalanceHandler on an in-memory merkledb, and then a
// second block is executed on the resulting view. Oracle: an independent ledger (plain map,
// big-integer sums): sum(post) = sum(pre) - sum(Result.Fee), every balance exact (a key
// holding 0 counts as an empty account), Result.Success / Result.Fee exact, block validity
// (an unfunded sponsor invalidates the block).
package main

import (
	"encoding/binary"
	"errors"
	"fmt"
	"math"
	"math/big"
	"os"
	"runtime"
	"sync"
	"sync/atomic"

	"github.com/ava-labs/avalanchego/database"
	"github.com/ava-labs/avalanchego/ids"

	"github.com/ava-labs/hypersdk/chain"
	"github.com/ava-labs/hypersdk/codec"
	"github.com/ava-labs/hypersdk/examples/morpheusvm/actions"
	mstorage "github.com/ava-labs/hypersdk/examples/morpheusvm/storage"
	"github.com/ava-labs/hypersdk/internal/validitywindow/validitywindowtest"
	"github.com/ava-labs/hypersdk/internal/vshim/evid"
	"github.com/ava-labs/hypersdk/internal/workers"
	"github.com/ava-labs/hypersdk/state"
	"github.com/ava-labs/hypersdk/verifh/rig"
)

const (
	blockTs = 1000
	v       = 3
	nAcc    = 3
)

// symbolic amounts, resolved once the fee of the transaction is known
type sym uint8

const (
	sZero sym = iota
	sOne
	sV
	sWhole     // sponsor's genesis balance minus the fee (everything spendable at tx start)
	sWholeP1   // one more than that
	sMax       // 2^64-1
	sHalfWhole // half of the spendable balance (so that two of them empty the account)
)

var symNames = []string{"0", "1", "v", "whole", "whole+1", "max", "whole/2"}

type xfer struct {
	to  int
	val sym
}

type txSpec struct {
	sponsor int
	xs      []xfer
}

// genesis balance symbols
type gsym uint8

const (
	gAbsent gsym = iota
	gFee         // exactly the fee of the sponsor's transaction
	gFeeP1
	gFeeV  // fee + v
	gFee2V // fee + 2v
	gLarge
	gMax // 2^64-1
	gOne
	gV
)

var gNames = []string{"absent", "fee", "fee+1", "fee+v", "fee+2v", "large", "2^64-1", "1", "v"}

type caseSpec struct {
	txs []txSpec
	bal [nAcc]gsym
	two bool // execute a second block (tx from B: transfer v to A) on the output view
}

func (c caseSpec) String() string {
	s := "balances["
	for i, g := range c.bal {
		s += fmt.Sprintf("%c=%s ", 'A'+i, gNames[g])
	}
	s += "]"
	for _, t := range c.txs {
		s += fmt.Sprintf(" tx(sponsor %c:", 'A'+t.sponsor)
		for _, x := range t.xs {
			s += fmt.Sprintf(" ->%c %s;", 'A'+x.to, symNames[x.val])
		}
		s += ")"
	}
	if c.two {
		s += " +second-block"
	}
	return s
}

type ledger map[int]uint64

func sumBig(l ledger) *big.Int {
	s := new(big.Int)
	for _, b := range l {
		s.Add(s, new(big.Int).SetUint64(b))
	}
	return s
}

// refTx applies one transaction to the ledger; returns (blockValid, success).
func refTx(l ledger, sponsor int, fee uint64, vals []uint64, tos []int) (bool, bool) {
	if l[sponsor] < fee {
		return false, false
	}
	l[sponsor] -= fee
	snap := ledger{}
	for k, b := range l {
		snap[k] = b
	}
	for i, val := range vals {
		fail := false
		switch {
		case val == 0:
			fail = true
		case l[sponsor] < val: // includes the absent account
			fail = true
		default:
			l[sponsor] -= val
			if l[tos[i]] > math.MaxUint64-val {
				fail = true
			} else {
				l[tos[i]] += val
			}
		}
		if fail {
			for k := range l {
				delete(l, k)
			}
			for k, b := range snap {
				l[k] = b
			}
			return true, false
		}
	}
	return true, true
}

func mkTx(env *rig.Env, sponsor int, tos []int, vals []uint64, nonce int) *chain.Transaction {
	var as []chain.Action
	for i := range tos {
		as = append(as, &actions.Transfer{To: rig.Addr(tos[i]), Value: vals[i], Memo: []byte{byte(nonce), byte(i)}})
	}
	return env.MakeTx(sponsor, as, blockTs, rig.TxOpts{})
}

func feeOf(env *rig.Env, tx *chain.Transaction) uint64 {
	u, err := tx.Units(env.BH, env.Rules)
	if err != nil {
		panic(err)
	}
	f := new(big.Int)
	for i := range u {
		f.Add(f, new(big.Int).Mul(new(big.Int).SetUint64(u[i]), new(big.Int).SetUint64(env.Rules.MinUnitPrice[i])))
	}
	if !f.IsUint64() {
		panic("fee overflow")
	}
	return f.Uint64()
}

func resolveG(g gsym, fee uint64) uint64 {
	switch g {
	case gAbsent:
		return 0
	case gFee:
		return fee
	case gFeeP1:
		return fee + 1
	case gFeeV:
		return fee + v
	case gFee2V:
		return fee + 2*v
	case gLarge:
		return 1 << 40
	case gMax:
		return math.MaxUint64
	case gOne:
		return 1
	case gV:
		return v
	}
	panic("g")
}

func resolveS(s sym, spendable uint64) uint64 {
	switch s {
	case sZero:
		return 0
	case sOne:
		return 1
	case sV:
		return v
	case sWhole:
		return spendable
	case sWholeP1:
		if spendable == math.MaxUint64 {
			return spendable
		}
		return spendable + 1
	case sMax:
		return math.MaxUint64
	case sHalfWhole:
		return spendable / 2
	}
	panic("s")
}

func readLedger(im state.Immutable) (ledger, string) {
	l := ledger{}
	for i := 0; i < nAcc; i++ {
		raw, err := im.GetValue(rig.Ctx, mstorage.BalanceKey(rig.Addr(i)))
		if errors.Is(err, database.ErrNotFound) {
			continue
		}
		if err != nil {
			return nil, err.Error()
		}
		if len(raw) != 8 {
			return nil, fmt.Sprintf("balance value of %c has %d bytes", 'A'+i, len(raw))
		}
		b := binary.BigEndian.Uint64(raw)
		// (a key holding 0 is an empty account like an absent key: conservation does not care)
		l[i] = b
	}
	return l, ""
}

func ledgerEq(a, b ledger) bool {
	for i := 0; i < nAcc; i++ {
		if a[i] != b[i] {
			return false
		}
	}
	return true
}

type verdict struct {
	key, what string
	outcome   string
}

func runCase(c caseSpec, cores int) verdict {
	// fees depend only on the shape of the transaction (sizes are value-independent: fixed-width
	// encoding), so compute them on a throw-away env first.
	probe := rig.NewEnvLite(nil, &mstorage.BalanceHandler{})
	fees := make([]uint64, len(c.txs))
	for i, t := range c.txs {
		tos := make([]int, len(t.xs))
		vals := make([]uint64, len(t.xs))
		for j, x := range t.xs {
			tos[j] = x.to
			vals[j] = 1
		}
		fees[i] = feeOf(probe, mkTx(probe, t.sponsor, tos, vals, i))
	}
	bal := make([]uint64, nAcc)
	for i := range bal {
		f := fees[0]
		for ti, t := range c.txs {
			if t.sponsor == i {
				f = fees[ti]
			}
		}
		bal[i] = resolveG(c.bal[i], f)
	}
	env := rig.NewEnv(rig.EnvConfig{BH: &mstorage.BalanceHandler{}, Balances: bal})
	pre, bad := readLedger(env.DB)
	if bad != "" {
		evid.Infra("genesis ledger: %s", bad)
	}
	ref := ledger{}
	for k, b := range pre {
		ref[k] = b
	}
	var txs []*chain.Transaction
	valid := true
	var wantOK []bool
	var wantFee []uint64
	for i, t := range c.txs {
		spendable := uint64(0)
		if ref[t.sponsor] >= fees[i] {
			spendable = ref[t.sponsor] - fees[i]
		}
		tos := make([]int, len(t.xs))
		vals := make([]uint64, len(t.xs))
		for j, x := range t.xs {
			tos[j] = x.to
			vals[j] = resolveS(x.val, spendable)
		}
		tx := mkTx(env, t.sponsor, tos, vals, i)
		if feeOf(env, tx) != fees[i] {
			evid.Infra("fee depends on values")
		}
		txs = append(txs, tx)
		if valid {
			bv, ok := refTx(ref, t.sponsor, fees[i], vals, tos)
			if !bv {
				valid = false
			}
			wantOK = append(wantOK, ok)
			wantFee = append(wantFee, fees[i])
		}
	}
	w := workers.NewSerial()
	p := env.NewProcessor(cores, 2, w, &validitywindowtest.MockTimeValidityWindow[*chain.Transaction]{}, nil)
	blk := env.MakeBlock(env.DB, ids.Empty, 1, blockTs, txs)
	out, err := p.Execute(rig.Ctx, env.DB, blk, true)
	if (err == nil) != valid {
		return verdict{"block-validity", fmt.Sprintf("processor error=%v but the ledger says valid=%v", err, valid), ""}
	}
	if err != nil {
		return verdict{outcome: "invalid-block"}
	}
	post, bad := readLedger(out.View)
	if bad != "" {
		return verdict{"zero-balance-key", bad, ""}
	}
	feeSum := new(big.Int)
	for _, r := range out.ExecutionResults.Results {
		feeSum.Add(feeSum, new(big.Int).SetUint64(r.Fee))
	}
	want := new(big.Int).Sub(sumBig(pre), feeSum)
	if sumBig(post).Cmp(want) != 0 {
		return verdict{"supply-not-conserved", fmt.Sprintf("sum of balances before %s, fees %s, after %s (expected %s); before=%v after=%v", sumBig(pre), feeSum, sumBig(post), want, pre, post), ""}
	}
	oc := ""
	for i, r := range out.ExecutionResults.Results {
		if r.Fee != wantFee[i] {
			return verdict{"fee-differs", fmt.Sprintf("tx %d charged %d, units x prices = %d", i, r.Fee, wantFee[i]), ""}
		}
		if r.Success != wantOK[i] {
			return verdict{"success-differs", fmt.Sprintf("tx %d success=%v (error %q), ledger says %v", i, r.Success, r.Error, wantOK[i]), ""}
		}
		if r.Success {
			oc += "S"
		} else {
			oc += "F"
		}
	}
	if !ledgerEq(post, ref) {
		return verdict{"ledger-differs", fmt.Sprintf("balances after the block %v, ledger %v (before %v)", post, ref, pre), ""}
	}
	if c.two {
		// second block on the output view: B sends v to A (or fails), parent = block 1
		fee2 := feeOf(env, mkTx(env, 1, []int{0}, []uint64{v}, 9))
		tx2 := env.MakeTx(1, []chain.Action{&actions.Transfer{To: rig.Addr(0), Value: v, Memo: []byte{9, 0}}}, 2*blockTs, rig.TxOpts{})
		pre2 := ledger{}
		for k, b := range ref {
			pre2[k] = b
		}
		bv, ok2 := refTx(ref, 1, fee2, []uint64{v}, []int{0})
		blk2 := env.MakeBlock(out.View, blk.GetID(), 2, 2*blockTs, []*chain.Transaction{tx2})
		out2, err2 := p.Execute(rig.Ctx, out.View, blk2, true)
		if (err2 == nil) != bv {
			return verdict{"block-validity", fmt.Sprintf("second block: processor error=%v but the ledger says valid=%v", err2, bv), ""}
		}
		if err2 == nil {
			post2, bad := readLedger(out2.View)
			if bad != "" {
				return verdict{"zero-balance-key", "second block: " + bad, ""}
			}
			r2 := out2.ExecutionResults.Results[0]
			if r2.Success != ok2 {
				return verdict{"success-differs", fmt.Sprintf("second block: success=%v ledger %v", r2.Success, ok2), ""}
			}
			want2 := new(big.Int).Sub(sumBig(pre2), new(big.Int).SetUint64(r2.Fee))
			if sumBig(post2).Cmp(want2) != 0 {
				return verdict{"supply-not-conserved", fmt.Sprintf("second block: before %v after %v fee %d", pre2, post2, r2.Fee), ""}
			}
			if !ledgerEq(post2, ref) {
				return verdict{"ledger-differs", fmt.Sprintf("second block: balances %v, ledger %v", post2, ref), ""}
			}
			oc += "+" + map[bool]string{true: "S", false: "F"}[r2.Success]
		} else {
			oc += "+invalid"
		}
	}
	return verdict{outcome: oc}
}

func genCases(thorough bool) []caseSpec {
	var out []caseSpec
	vals := []sym{sZero, sOne, sV, sWhole, sWholeP1, sMax, sHalfWhole}
	var xmenu []xfer
	for to := 0; to < nAcc; to++ {
		for _, s := range vals {
			xmenu = append(xmenu, xfer{to, s})
		}
	}
	sponsorBal := []gsym{gAbsent, gFee, gFeeP1, gFeeV, gFee2V, gLarge, gMax}
	otherBal := []gsym{gAbsent, gOne, gV, gMax}
	maxA := 3
	if thorough {
		maxA = 4
	}
	// single-transaction blocks, sponsor A
	var rec func(cur []xfer)
	rec = func(cur []xfer) {
		if len(cur) > 0 {
			for _, ba := range sponsorBal {
				for _, bb := range otherBal {
					for _, bc := range otherBal {
						if len(cur) >= 3 && bc != gAbsent && bc != gMax {
							continue // thin the deepest levels: C only absent / max
						}
						if len(cur) >= 4 && (bb == gOne || ba == gFeeP1 || ba == gAbsent) {
							continue
						}
						out = append(out, caseSpec{txs: []txSpec{{0, append([]xfer{}, cur...)}}, bal: [nAcc]gsym{ba, bb, bc}, two: len(cur) <= 2})
					}
				}
			}
		}
		if len(cur) == maxA {
			return
		}
		for _, x := range xmenu {
			if len(cur) >= 2 && (x.val == sZero || x.val == sMax || x.val == sWholeP1) && !thorough {
				continue // quick: failing amounts only in the first two positions
			}
			if len(cur) >= 3 && (x.val == sZero || x.val == sMax || x.val == sOne || x.to == 2) {
				continue // 4th action (thorough): v / whole / whole+1 / half to A or B
			}
			rec(append(cur, x))
		}
	}
	rec(nil)
	// two-transaction blocks: sponsors A and B, <=2 transfers each from a reduced menu
	var small []xfer
	for to := 0; to < nAcc; to++ {
		for _, s := range []sym{sOne, sV, sWhole, sWholeP1} {
			small = append(small, xfer{to, s})
		}
	}
	var lists [][]xfer
	for _, a := range small {
		lists = append(lists, []xfer{a})
		for _, b := range small {
			if !thorough && b.val == sOne {
				continue
			}
			lists = append(lists, []xfer{a, b})
		}
	}
	twoBal := [][nAcc]gsym{{gFeeV, gFeeV, gAbsent}, {gFee, gFee2V, gAbsent}, {gFee2V, gFee, gV}, {gLarge, gAbsent, gAbsent}, {gFeeV, gMax, gAbsent}, {gAbsent, gFeeV, gMax}}
	for _, la := range lists {
		for _, lb := range lists {
			if !thorough && len(la)+len(lb) > 3 {
				continue
			}
			for _, b := range twoBal {
				out = append(out, caseSpec{txs: []txSpec{{0, la}, {1, lb}}, bal: b})
			}
		}
	}
	return out
}

func main() {
	r := evid.Start("C06", "exploration")
	cases := genCases(r.Thorough())
	if idx, ok := evid.ReplayIndex(); ok {
		c := cases[idx]
		vd := runCase(c, []int{1, 4}[idx%2])
		fmt.Printf("replay case %d: %s\n  verdict key=%q what=%s outcome=%s\n", idx, c, vd.key, vd.what, vd.outcome)
		if vd.key != "" {
			os.Exit(1)
		}
		os.Exit(0)
	}
	var done, nontrivial atomic.Int64
	outcomes := sync.Map{}
	var wg sync.WaitGroup
	nw := runtime.NumCPU()
	var capped atomic.Bool
	for w := 0; w < nw; w++ {
		wg.Add(1)
		go func(w int) {
			defer wg.Done()
			for i := w; i < len(cases); i += nw {
				if i%256 == w && r.Expired() {
					capped.Store(true)
					return
				}
				c := cases[i]
				cores := []int{1, 4}[i%2]
				vd := runCase(c, cores)
				done.Add(1)
				if vd.key != "" {
					r.Violation("C06:"+vd.key, vd.what+" ["+c.String()+"]", map[string]any{"case": c.String(), "index": i, "cores": cores})
					continue
				}
				if vd.outcome != "invalid-block" {
					nontrivial.Add(1)
				}
				outcomes.Store(vd.outcome, true)
				if i%50000 == 0 {
					r.Sample(map[string]any{"case": c.String(), "outcome": vd.outcome})
				}
			}
		}(w)
	}
	wg.Wait()
	if capped.Load() {
		r.Cap("deadline reached")
	}
	n := 0
	outcomes.Range(func(_, _ any) bool { n++; return true })
	r.Cov["evaluations"] = done.Load()
	r.Cov["distinct_nontrivial"] = nontrivial.Load()
	r.Cov["distinct_outcomes"] = n
	r.Cov["cases_enumerated"] = len(cases)
	r.Cov["rule"] = "complete enumeration: 1-tx blocks with 1..3 (thorough 4) transfers over (to in {A,B,C}) x (value in {0,1,v,whole,whole+1,2^64-1,whole/2}) x sponsor balance {absent,fee,fee+1,fee+v,fee+2v,large,2^64-1} x other balances {absent,1,v,2^64-1}^2, followed by a second block on the output view for <=2 actions; 2-tx blocks (sponsors A,B; <=2 transfers each from a 12-item menu) x 6 balance configurations; cores alternate 1/4; real Processor + morpheusvm BalanceHandler + merkledb"
	r.Assumptions = []string{"transactions of more than 4 actions are outside the bound (the statement says 1..16)", "unit prices are the minimum prices (fee = sum of units); fee arithmetic itself is C03/C12/C13", "3 accounts"}
	_ = codec.Address{}
	r.Finish()
}
