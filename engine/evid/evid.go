// Package evid writes evidence files, prints VIOLATION / KNOWN-FINDING lines and
// replay artefacts for every check of /verif. It is the only place that decides the
// exit status of a check.
package evid

import (
	"encoding/json"
	"fmt"
	"os"
	"path/filepath"
	"regexp"
	"sort"
	"strconv"
	"strings"
	"sync"
	"time"
)

// Finding is one line of /verif/known_findings.jsonl.
type Finding struct {
	Property string `json:"property"`
	Key      string `json:"key"`
	Status   string `json:"status"` // "known" | "fixed"
	Commit   string `json:"commit,omitempty"`
	What     string `json:"what"`
	Where    string `json:"where,omitempty"`
}

// Run accumulates what one invocation of a check covered.
type Run struct {
	ID    string
	Tier  string
	Seed  int
	Level string
	Root  string

	mu          sync.Mutex
	start       time.Time
	known       map[string]Finding
	knownSeen   map[string]int
	violations  map[string]int
	violOrder   []string
	replays     map[string]string
	samples     []any
	Cov         map[string]any
	Assumptions []string
	deadline    time.Time
	capsHit     []string
}

func root() string {
	if r := os.Getenv("VERIF_ROOT"); r != "" {
		return r
	}
	return "/verif"
}

// Start begins a run of property id at the given evidence level.
func Start(id, level string) *Run {
	r := &Run{
		ID: id, Level: level, Root: root(), start: time.Now(),
		known: map[string]Finding{}, knownSeen: map[string]int{}, violations: map[string]int{},
		replays: map[string]string{}, Cov: map[string]any{},
	}
	r.Tier = os.Getenv("VERIF_TIER")
	if r.Tier != "thorough" {
		r.Tier = "quick"
	}
	if s := os.Getenv("VERIF_SEED"); s != "" {
		r.Seed, _ = strconv.Atoi(s)
	}
	// internal deadline: stop expanding, report exhaustive:false, exit 0.
	d := 5 * time.Minute
	if r.Tier == "thorough" {
		d = 30 * time.Minute
	}
	if s := os.Getenv("VERIF_DEADLINE_S"); s != "" {
		if n, err := strconv.Atoi(s); err == nil {
			d = time.Duration(n) * time.Second
		}
	}
	r.deadline = r.start.Add(d)
	f, err := os.ReadFile(filepath.Join(r.Root, "known_findings.jsonl"))
	if err == nil {
		for _, l := range strings.Split(string(f), "\n") {
			l = strings.TrimSpace(l)
			if l == "" {
				continue
			}
			var k Finding
			if json.Unmarshal([]byte(l), &k) == nil && k.Property == id && k.Status == "known" {
				r.known[k.Key] = k
			}
		}
	}
	return r
}

// Thorough reports whether the thorough tier was requested.
func (r *Run) Thorough() bool { return r.Tier == "thorough" }

// Pick returns q in the quick tier and t in the thorough tier.
func Pick[T any](r *Run, q, t T) T {
	if r.Thorough() {
		return t
	}
	return q
}

// Expired reports whether the internal deadline passed; callers stop expanding and
// record the cap with Cap.
func (r *Run) Expired() bool { return time.Now().After(r.deadline) }

// Cap records that a bound/cap was hit, so the run is not exhaustive.
func (r *Run) Cap(what string) {
	r.mu.Lock()
	defer r.mu.Unlock()
	for _, c := range r.capsHit {
		if c == what {
			return
		}
	}
	r.capsHit = append(r.capsHit, what)
}

// Capped reports whether any cap was recorded.
func (r *Run) Capped() bool { r.mu.Lock(); defer r.mu.Unlock(); return len(r.capsHit) > 0 }

// Sample keeps up to 5 written-out cases for the evidence file.
func (r *Run) Sample(s any) {
	r.mu.Lock()
	defer r.mu.Unlock()
	if len(r.samples) < 5 {
		r.samples = append(r.samples, s)
	}
}

var unsafeChars = regexp.MustCompile(`[^A-Za-z0-9_.-]+`)

// Violation reports a property violation with a stable finding key. If the key is
// listed as a known finding it is printed (once) as KNOWN-FINDING and does not fail
// the run; otherwise a replay artefact is written and the run will exit 1.
// It returns true if the violation is new (not known).
func (r *Run) Violation(key, what string, replay any) bool {
	r.mu.Lock()
	defer r.mu.Unlock()
	if k, ok := r.known[key]; ok {
		if r.knownSeen[key] == 0 {
			fmt.Printf("KNOWN-FINDING: property=%s %s [%s]\n", r.ID, k.What, key)
		}
		r.knownSeen[key]++
		return false
	}
	r.violations[key]++
	if r.violations[key] > 1 {
		return true
	}
	r.violOrder = append(r.violOrder, key)
	dir := filepath.Join(r.Root, "replays")
	if d := os.Getenv("VERIF_EVIDENCE_DIR"); d != "" {
		dir = filepath.Join(d, "replays")
	}
	_ = os.MkdirAll(dir, 0o755)
	p := filepath.Join(dir, r.ID+"-"+unsafeChars.ReplaceAllString(key, "_")+".json")
	b, _ := json.MarshalIndent(map[string]any{
		"property": r.ID, "key": key, "what": what, "tier": r.Tier, "replay": replay,
	}, "", " ")
	_ = os.WriteFile(p, b, 0o644)
	r.replays[key] = p
	fmt.Printf("VIOLATION property=%s replay=%s\n", r.ID, p)
	fmt.Printf("  key=%s\n  what=%s\n", key, what)
	return true
}

// NewViolations is the number of distinct non-known violation keys so far.
func (r *Run) NewViolations() int { r.mu.Lock(); defer r.mu.Unlock(); return len(r.violations) }

// Finish writes evidence/<id>.json and exits 0 (held / only known findings) or 1.
func (r *Run) Finish() {
	r.mu.Lock()
	cov := r.Cov
	if _, ok := cov["samples"]; !ok {
		if len(r.samples) == 0 {
			r.samples = append(r.samples, "none recorded")
		}
		cov["samples"] = r.samples
	}
	if len(r.capsHit) > 0 {
		cov["exhaustive"] = false
		cov["caps_hit"] = r.capsHit
	} else if _, ok := cov["exhaustive"]; !ok {
		cov["exhaustive"] = true
	}
	if len(r.knownSeen) > 0 {
		ks := []string{}
		for k := range r.knownSeen {
			ks = append(ks, fmt.Sprintf("%s x%d", k, r.knownSeen[k]))
		}
		sort.Strings(ks)
		cov["known_findings_seen"] = ks
	}
	if os.Getenv("VERIF_RACE_RAN") == "1" {
		rp := map[string]any{"ran": true, "iterations": os.Getenv("VERIF_RACE_ITERS_DONE"), "data_races_reported": false, "hit_time_budget": os.Getenv("VERIF_RACE_TIMEOUT") == "1"}
		if rep := os.Getenv("VERIF_RACE_REPORT"); rep != "" {
			rp["data_races_reported"] = true
			rp["report"] = rep
			r.mu.Unlock()
			frame := raceFrame(rep)
			r.Violation(r.ID+":data-race:"+frame, "the free-running -race pass over the same harness bodies reported a data race in "+frame+" (report: "+rep+")", map[string]any{"report": rep})
			r.mu.Lock()
		}
		cov["race_pass"] = rp
	}
	// stale known findings (listed but not reproduced) are reported, not failed:
	stale := []string{}
	for k := range r.known {
		if r.knownSeen[k] == 0 {
			stale = append(stale, k)
		}
	}
	sort.Strings(stale)
	if len(stale) > 0 {
		cov["known_findings_not_reproduced"] = stale
	}
	if len(r.violOrder) > 0 {
		cov["violation_keys"] = r.violOrder
	}
	cov["repo_head"] = os.Getenv("VERIF_REPO_HEAD")
	cov["repo_dirty"] = os.Getenv("VERIF_REPO_DIRTY") == "1"
	ev := map[string]any{
		"property_id": r.ID, "tier": r.Tier, "seed": r.Seed, "level": r.Level,
		"coverage": cov, "assumptions": r.Assumptions,
		"wall_s":     time.Since(r.start).Seconds(),
		"violations": len(r.violations),
	}
	if ev["assumptions"] == nil || len(r.Assumptions) == 0 {
		ev["assumptions"] = []string{}
	}
	b, _ := json.MarshalIndent(ev, "", " ")
	dir := filepath.Join(r.Root, "evidence")
	if d := os.Getenv("VERIF_EVIDENCE_DIR"); d != "" {
		dir = d // mutant runs against a scratch worktree must not overwrite the real evidence
	}
	_ = os.MkdirAll(dir, 0o755)
	if err := os.WriteFile(filepath.Join(dir, r.ID+".json"), append(b, '\n'), 0o644); err != nil {
		fmt.Fprintln(os.Stderr, "evidence write failed:", err)
		os.Exit(2)
	}
	nv := len(r.violations)
	r.mu.Unlock()
	RunCleanup()
	r.genericReplay()
	fmt.Printf("%s %s: %v wall=%.1fs violations=%d known=%d\n", r.ID, r.Tier, summarize(cov), time.Since(r.start).Seconds(), nv, len(r.knownSeen))
	if nv > 0 {
		os.Exit(1)
	}
	os.Exit(0)
}

func summarize(cov map[string]any) string {
	keys := []string{"evaluations", "distinct_nontrivial", "states", "transitions", "traces_validated_against_impl", "exhaustive", "distinct_outcomes"}
	var sb strings.Builder
	for _, k := range keys {
		if v, ok := cov[k]; ok {
			fmt.Fprintf(&sb, "%s=%v ", k, v)
		}
	}
	return strings.TrimSpace(sb.String())
}

// CleanupDir registers a scratch directory that must be removed before the process exits. The
// harnesses leave through os.Exit (Finish, sharded workers, replays), which skips deferred calls and
// testing's TempDir cleanup: without this every worker process left its directories behind.
func CleanupDir(path string) {
	cleanupMu.Lock()
	cleanupDirs = append(cleanupDirs, path)
	cleanupMu.Unlock()
}

var (
	cleanupMu   sync.Mutex
	cleanupDirs []string
)

// RunCleanup removes the registered directories (idempotent).
func RunCleanup() {
	cleanupMu.Lock()
	d := cleanupDirs
	cleanupDirs = nil
	cleanupMu.Unlock()
	for _, p := range d {
		_ = os.RemoveAll(p)
	}
}

// Infra aborts the run with exit 2 (infrastructure error, never a violation).
func Infra(format string, a ...any) {
	fmt.Fprintf(os.Stderr, "INFRA-ERROR: "+format+"\n", a...)
	RunCleanup()
	os.Exit(2)
}

// raceFrame extracts the function of the first racing access (the first non-runtime frame of
// the report). A race whose racing access is in harness code is a harness bug, not a finding.
func raceFrame(path string) string {
	b, err := os.ReadFile(path)
	if err != nil {
		return "unknown"
	}
	lines := strings.Split(string(b), "\n")
	for i := 0; i+1 < len(lines); i++ {
		fn := strings.TrimSpace(lines[i])
		loc := strings.TrimSpace(lines[i+1])
		if !strings.HasSuffix(fn, ")") || !strings.HasPrefix(loc, "/") {
			continue
		}
		if strings.HasPrefix(fn, "runtime.") || strings.HasPrefix(fn, "sync.") || strings.HasPrefix(fn, "sync/atomic.") || strings.Contains(loc, "/src/runtime/") {
			continue
		}
		if j := strings.Index(fn, "("); j > 0 && !strings.HasPrefix(fn, "(") {
			fn = fn[:j]
		}
		if strings.HasPrefix(loc, "/verif/") && !strings.Contains(loc, "/inpkg/") {
			Infra("data race in harness code (%s at %s): fix the harness", fn, loc)
		}
		return fn
	}
	return "unknown"
}

// RacePass reports whether this process is the auxiliary free-running -race pass; the
// harness then runs its bodies natively (no scheduler) and exits 0.
func RacePass() bool { return os.Getenv("VERIF_RACE_PASS") == "1" }

// ReplayPayload returns the "replay" object of the artefact named by `--replay <file>` on the
// command line (nil if the check was not started in replay mode).
func ReplayPayload() map[string]any {
	f := replayFile()
	if f == "" {
		return nil
	}
	replayConsumed = true
	b, err := os.ReadFile(f)
	if err != nil {
		Infra("replay file: %v", err)
	}
	var doc struct {
		Replay map[string]any `json:"replay"`
	}
	if err := json.Unmarshal(b, &doc); err != nil || doc.Replay == nil {
		Infra("replay file %s has no replay object", f)
	}
	return doc.Replay
}

// replayConsumed is set when the harness implements targeted replay itself. Harnesses that do
// not are replayed generically by Finish: the complete check is deterministic and exhaustive
// within its bounds, so re-running it and looking for the recorded violation key replays the case.
var replayConsumed bool

func replayFile() string {
	for i, a := range os.Args {
		if a == "--replay" && i+1 < len(os.Args) {
			return os.Args[i+1]
		}
	}
	return os.Getenv("VERIF_REPLAY")
}

// genericReplay is called by Finish when a replay artefact was given and the harness did not
// consume it: exit 1 iff the recorded key was found again by the full run.
func (r *Run) genericReplay() {
	f := replayFile()
	if f == "" || replayConsumed {
		return
	}
	b, err := os.ReadFile(f)
	if err != nil {
		Infra("replay file: %v", err)
	}
	var doc struct {
		Key  string `json:"key"`
		What string `json:"what"`
	}
	if err := json.Unmarshal(b, &doc); err != nil || doc.Key == "" {
		Infra("replay file %s has no violation key", f)
	}
	found := r.knownSeen[doc.Key] > 0
	for _, k := range r.violOrder {
		if k == doc.Key {
			found = true
		}
	}
	fmt.Printf("replay of %s by re-running the complete %s check (deterministic, exhaustive within its bounds): key %s ", filepath.Base(f), r.Tier, doc.Key)
	if found {
		fmt.Println("REPRODUCED")
		fmt.Printf("  recorded: %s\n", doc.What)
		os.Exit(1)
	}
	fmt.Println("not reproduced on this tree")
	os.Exit(0)
}

// ReplayIndex returns replay["index"] of the artefact given with --replay.
func ReplayIndex() (int, bool) {
	p := ReplayPayload()
	if p == nil {
		return 0, false
	}
	if d, ok := p["detail"].(map[string]any); ok { // sharded harnesses nest their payload
		p = d
	}
	f, ok := p["index"].(float64)
	if !ok {
		Infra("replay artefact has no index")
	}
	return int(f), true
}
