package evid

import (
	"bufio"
	"encoding/json"
	"fmt"
	"os"
	"os/exec"
	"runtime"
	"strconv"
	"strings"
	"sync"
)

// ShardResult is what a worker process reports for one scenario.
type ShardResult struct {
	Scenario   int              `json:"scenario"`
	Name       string           `json:"name,omitempty"`
	Counts     map[string]int   `json:"counts,omitempty"` // additive statistics
	Flags      map[string]bool  `json:"flags,omitempty"`  // OR-ed statistics
	Violations []ShardViolation `json:"violations,omitempty"`
	Sample     any              `json:"sample,omitempty"`
	Capped     string           `json:"capped,omitempty"`
	Infra      string           `json:"infra,omitempty"`
}

// ShardViolation is a violation found by a worker.
type ShardViolation struct {
	Key    string `json:"key"`
	What   string `json:"what"`
	Replay any    `json:"replay"`
}

// Sharded runs fn for every scenario index in [0,n). The parent process re-executes itself
// as `workers` children (the scheduler is process-global, one exploration at a time per
// process); scenario i is handled by child i%workers. Results are merged into totals,
// violations are reported through r.Violation in the parent.
func (r *Run) Sharded(n int, fn func(i int) ShardResult) (totals map[string]int, flags map[string]bool) {
	totals, flags = map[string]int{}, map[string]bool{}
	if sh := os.Getenv("VERIF_SHARD"); sh != "" {
		parts := strings.Split(sh, "/")
		me, _ := strconv.Atoi(parts[0])
		of, _ := strconv.Atoi(parts[1])
		w := bufio.NewWriter(os.Stdout)
		enc := json.NewEncoder(w)
		for i := me; i < n; i += of {
			var res ShardResult
			if r.Expired() {
				res = ShardResult{Scenario: i, Capped: "deadline before scenario started"}
			} else {
				res = fn(i)
				res.Scenario = i
			}
			w.WriteString("RESULT ")
			_ = enc.Encode(res)
			w.Flush()
		}
		RunCleanup()
		os.Exit(0)
	}
	workers := runtime.NumCPU()
	if s := os.Getenv("VERIF_WORKERS"); s != "" {
		workers, _ = strconv.Atoi(s)
	}
	if workers > n {
		workers = n
	}
	var mu sync.Mutex
	var wg sync.WaitGroup
	done := 0
	for w := 0; w < workers; w++ {
		wg.Add(1)
		go func(w int) {
			defer wg.Done()
			cmd := exec.Command(os.Args[0], os.Args[1:]...)
			cmd.Env = append(os.Environ(), fmt.Sprintf("VERIF_SHARD=%d/%d", w, workers), "GOMAXPROCS=1",
				fmt.Sprintf("VERIF_DEADLINE_S=%d", int(r.deadline.Sub(r.start).Seconds())))
			cmd.Stderr = os.Stderr
			out, err := cmd.StdoutPipe()
			if err != nil {
				Infra("pipe: %v", err)
			}
			if err := cmd.Start(); err != nil {
				Infra("start worker: %v", err)
			}
			sc := bufio.NewScanner(out)
			sc.Buffer(make([]byte, 1<<20), 1<<26)
			for sc.Scan() {
				line := sc.Text()
				if !strings.HasPrefix(line, "RESULT ") {
					fmt.Println(line)
					continue
				}
				var res ShardResult
				if err := json.Unmarshal([]byte(line[7:]), &res); err != nil {
					Infra("bad worker result: %v", err)
				}
				mu.Lock()
				done++
				for k, v := range res.Counts {
					totals[k] += v
				}
				for k, v := range res.Flags {
					flags[k] = flags[k] || v
				}
				if res.Capped != "" {
					r.mu.Lock()
					dup := false
					for _, c := range r.capsHit {
						if c == res.Capped {
							dup = true
						}
					}
					if !dup {
						r.capsHit = append(r.capsHit, res.Capped)
					}
					r.mu.Unlock()
				}
				mu.Unlock()
				if res.Infra != "" {
					Infra("worker: scenario %d (%s): %s", res.Scenario, res.Name, res.Infra)
				}
				for _, v := range res.Violations {
					r.Violation(v.Key, v.What, map[string]any{"scenario": res.Scenario, "name": res.Name, "detail": v.Replay})
				}
				if res.Sample != nil {
					r.Sample(res.Sample)
				}
			}
			if err := cmd.Wait(); err != nil {
				Infra("worker %d failed: %v", w, err)
			}
		}(w)
	}
	wg.Wait()
	if done != n {
		Infra("only %d of %d scenarios reported", done, n)
	}
	totals["scenarios"] = n
	return totals, flags
}
