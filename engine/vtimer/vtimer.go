// Package vtimer stands in for github.com/ava-labs/avalanchego/utils/timer in instrumented
// packages. Outside a controlled execution it delegates to the real timer. Inside one, the
// Dispatch loop is a controlled thread that blocks on a visible operation enabled while the
// timer is armed (or stopped); the moment the scheduler chooses that thread IS the moment
// the timer fires, so every firing time relative to the other threads is explored and no
// wall-clock is involved.
package vtimer

import (
	"time"

	"github.com/ava-labs/avalanchego/utils/timer"

	"github.com/ava-labs/hypersdk/internal/vshim/vsched"
)

type Timer struct {
	handler func()
	real    *timer.Timer
	ctl     *vsched.TimerState
}

func NewTimer(handler func()) *Timer {
	t := &Timer{handler: handler}
	if vsched.Active() {
		t.ctl = vsched.NewTimerState()
	} else {
		t.real = timer.NewTimer(handler)
	}
	return t
}

func (t *Timer) SetTimeoutIn(d time.Duration) {
	if t.ctl != nil {
		t.ctl.Arm()
		return
	}
	t.real.SetTimeoutIn(d)
}

func (t *Timer) Cancel() {
	if t.ctl != nil {
		t.ctl.Disarm()
		return
	}
	t.real.Cancel()
}

func (t *Timer) Stop() {
	if t.ctl != nil {
		t.ctl.Stop()
		return
	}
	t.real.Stop()
}

func (t *Timer) Dispatch() {
	if t.ctl == nil {
		t.real.Dispatch()
		return
	}
	for t.ctl.WaitFire() {
		t.handler()
	}
	t.ctl.Exited()
}
