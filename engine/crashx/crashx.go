// Package crashx is the fault enumerator (E3a): a database wrapper over memdb that numbers
// every durable write (Put, Delete, Batch.Write — pebble in hypersdk is opened with
// synchronous writes and atomic batches, so the crash model is "any prefix of the durable-
// write sequence") and, while recording, keeps a copy of the content after each write. The
// harness reopens the component on every proper prefix and checks its recovery invariant.
package crashx

import (
	"github.com/ava-labs/avalanchego/database"
	"github.com/ava-labs/avalanchego/database/memdb"
)

// DB is a memdb that records a snapshot after every durable write while Recording is set.
type DB struct {
	*memdb.Database
	Recording bool
	Snaps     []*memdb.Database
	Writes    int
}

// New returns an empty recording-capable database.
func New() *DB { return &DB{Database: memdb.New()} }

// Clone copies the current content into a fresh memdb.
func Clone(src database.Database) *memdb.Database {
	cp := memdb.New()
	it := src.NewIterator()
	for it.Next() {
		_ = cp.Put(append([]byte{}, it.Key()...), append([]byte{}, it.Value()...))
	}
	it.Release()
	return cp
}

func (c *DB) snap() {
	c.Writes++
	if c.Recording {
		c.Snaps = append(c.Snaps, Clone(c.Database))
	}
}

// Start begins recording the durable writes of one operation.
func (c *DB) Start() { c.Recording, c.Snaps = true, nil }

// Stop ends recording and returns the snapshots of all PROPER prefixes (the content after
// each durable write except the last one).
func (c *DB) Stop() []*memdb.Database {
	c.Recording = false
	if len(c.Snaps) <= 1 {
		return nil
	}
	return c.Snaps[:len(c.Snaps)-1]
}

func (c *DB) Put(k, v []byte) error {
	err := c.Database.Put(k, v)
	c.snap()
	return err
}

func (c *DB) Delete(k []byte) error {
	err := c.Database.Delete(k)
	c.snap()
	return err
}

type batch struct {
	database.Batch
	c *DB
}

func (b *batch) Write() error {
	err := b.Batch.Write()
	b.c.snap()
	return err
}

func (c *DB) NewBatch() database.Batch { return &batch{c.Database.NewBatch(), c} }
