// Package vsched is the controlled cooperative scheduler (E1). Real goroutines, exactly one
// running at a time; every synchronisation operation of instrumented code is a visible
// operation that first passes through point(), where the scheduler decides who runs next.
// The explorer (explore.go) enumerates every sequence of such decisions within a bound.
//
// When no execution is active every shim delegates to the native primitive (pass-through).
package vsched

import (
	"fmt"
	"os"
	"runtime"
	"runtime/debug"
	"sync"
	"sync/atomic"
	"time"
	"unsafe"
)

type opKind uint8

const (
	opStart opKind = iota
	opLock
	opUnlock
	opRLock
	opRUnlock
	opWgAdd
	opWgWait
	opOnce
	opTouch
	opSend
	opRecv
	opClose
	opSelect
	opMonitor
	opChoose
	opYield
	opGo
	opTimer
)

// selCase is one case of a select (or the single case of a plain send/recv).
type selCase struct {
	send bool
	ch   unsafe.Pointer // channel identity (nil channel => never ready)
	cm   *chanModel     // nil for foreign channels
	val  any            // value to send
	// foreign channel hooks (native non-blocking attempt)
	tryNative func() (any, bool, bool) // returns (value, ok, succeeded)
}

// op is the pending visible operation of a parked thread.
type op struct {
	kind    opKind
	enabled func() bool
	cases   []selCase
	hasDef  bool
	// completion by a partner (rendezvous) or prefetch
	done   bool
	selIdx int
	val    any
	ok     bool
}

type thread struct {
	id      int
	wake    chan struct{}
	exited  chan struct{}
	pending *op
	dead    bool
	nops    uint64 // events executed (per-thread index)
	last    uint64 // hash of this thread's last event (HB predecessor)
	name    string
}

// Point is one recorded choice point of an execution.
type Point struct {
	N          int   // number of alternatives
	Chosen     int   // index taken
	Kind       uint8 // 0 = thread choice, 1 = free choice (select case / partner), 2 = environment choice
	CurEnabled bool  // thread choice: the running thread could have continued (alt>0 is a preemption)
	Threads    []int // thread choice: thread ids in canonical order
}

const (
	KindThread = 0
	KindFree   = 1
	KindEnv    = 2
)

// Outcome of one execution.
type Outcome struct {
	Points    []Point
	Deadlock  bool
	Cut       bool // aborted at an already-visited state
	Panics    []string
	Horizon   bool // step horizon exceeded (livelock guard)
	Blocked   []string
	Steps     int
	Diverged  string // replay divergence (infrastructure error)
	MainDone  bool
	Parked    []string // threads still alive (parked) when the execution ended
	Conflicts int      // number of events that touched an object previously touched by another thread
}

type sched struct {
	threads  []*thread
	cur      *thread
	prefix   []int
	pos      int
	points   []Point
	out      Outcome
	mainDone bool
	aborting atomic.Bool
	finished chan struct{}
	finOnce  sync.Once
	steps    int
	horizon  int
	// model state
	chans   map[unsafe.Pointer]*chanModel
	objs    map[unsafe.Pointer]*objInfo
	nextObj uint64
	// fingerprint of executed events (multiset hash)
	f1, f2 uint64
	// cost so far
	pre, dev int
	// explorer hooks
	ex     *Explorer
	vnow   int64 // virtual clock (ns)
	timers []*vtimer
}

type objInfo struct {
	id      uint64
	last    uint64 // hash of last (write) event
	readAcc uint64 // sum of reader event hashes since last write
	lastTid int
	multi   bool
}

var (
	gmu sync.Mutex // serialises executions (one at a time per process)
	g   atomic.Pointer[sched]
)

// Active reports whether a controlled execution is running (otherwise shims pass through).
func Active() bool { s := g.Load(); return s != nil && !s.aborting.Load() }

func cur() *sched { return g.Load() }

// inert reports whether shims must neither block nor schedule (teardown in progress).
func (s *sched) inert() bool { return s.aborting.Load() }

type abortSignal struct{}

func (s *sched) finish() {
	s.finOnce.Do(func() { close(s.finished) })
}

// parkForever parks the calling thread until teardown.
func (s *sched) parkForever(t *thread) {
	<-t.wake
	runtime.Goexit()
}

func mix(a, b uint64) uint64 {
	x := a ^ (b + 0x9e3779b97f4a7c15 + (a << 6) + (a >> 2))
	x ^= x >> 33
	x *= 0xff51afd7ed558ccd
	x ^= x >> 33
	x *= 0xc4ceb9fe1a85ec53
	x ^= x >> 33
	return x
}

func (s *sched) obj(p unsafe.Pointer) *objInfo {
	o := s.objs[p]
	if o == nil {
		// stable id: creating/first-using thread and its event index
		t := s.cur
		s.nextObj++
		o = &objInfo{id: mix(uint64(t.id)+1, t.nops<<8|uint64(s.nextObjLocal(t))), lastTid: -1}
		s.objs[p] = o
	}
	return o
}

func (s *sched) nextObjLocal(t *thread) uint64 { return s.nextObj & 0xff }

// event records an executed visible operation of thread t on object o (o may be nil).
// read = the event commutes with other read events on the same object.
func (s *sched) event(t *thread, kind opKind, o *objInfo, read bool, extra uint64) {
	var pred, oid uint64
	if o != nil {
		oid = o.id
		if read {
			pred = o.last
		} else {
			pred = mix(o.last, o.readAcc)
		}
		if o.lastTid != -1 && o.lastTid != t.id {
			o.multi = true
		}
		if o.multi {
			s.out.Conflicts++
		}
		o.lastTid = t.id
	}
	h := mix(mix(mix(uint64(t.id)<<32|uint64(kind), t.nops), mix(oid, extra)), mix(t.last, pred))
	t.nops++
	t.last = h
	if o != nil {
		if read {
			o.readAcc += h
		} else {
			o.last = h
			o.readAcc = 0
		}
	}
	s.f1 += h
	s.f2 += mix(h, 0x1234567)
}

// enabledThreads returns runnable threads in canonical order: running thread first (if
// enabled), then ascending ids.
func (s *sched) enabledThreads() ([]*thread, bool) {
	var out []*thread
	curEn := false
	if c := s.cur; c != nil && !c.dead && c.pending != nil && (c.pending.done || c.pending.enabled()) {
		out = append(out, c)
		curEn = true
	}
	for _, t := range s.threads {
		if t == s.cur || t.dead || t.pending == nil {
			continue
		}
		if t.pending.done || t.pending.enabled() {
			out = append(out, t)
		}
	}
	return out, curEn
}

// choose records a choice point with n alternatives and returns the index taken.
func (s *sched) choose(n int, kind uint8, curEnabled bool, tids []int) int {
	if n <= 1 {
		return 0
	}
	if s.mainDone {
		return 0 // after main returned: default order, no branching
	}
	c := 0
	if s.pos < len(s.prefix) {
		c = s.prefix[s.pos]
		if c >= n {
			s.out.Diverged = fmt.Sprintf("replay divergence at point %d: choice %d of %d", s.pos, c, n)
			c = 0
			s.pos = len(s.prefix)
		}
	} else if s.ex != nil && kind == KindThread {
		// beyond the prefix: cut at an already visited state
		if s.ex.visitedCut(s, curEnabled) {
			s.out.Cut = true
			s.points = append(s.points, Point{N: 1})
			s.finish()
			s.parkForever(s.cur)
		}
	}
	s.pos++
	s.points = append(s.points, Point{N: n, Chosen: c, Kind: kind, CurEnabled: curEnabled, Threads: tids})
	if c > 0 {
		switch kind {
		case KindThread:
			if curEnabled {
				s.pre++
			}
		case KindEnv:
			s.dev++
		}
	}
	return c
}

// schedule is called by the running thread (with its pending op set, or dead) and returns
// when that thread is chosen to continue. It never returns for a dead thread.
func (s *sched) schedule() {
	me := s.cur
	s.steps++
	if s.steps > s.horizon {
		s.out.Horizon = true
		s.finish()
		s.parkForever(me)
	}
	en, curEn := s.enabledThreads()
	if len(en) == 0 {
		// fire a pending virtual timer if any (time only advances when nothing else can run)
		if s.fireTimer() {
			en, curEn = s.enabledThreads()
		}
	}
	if len(en) == 0 {
		if !s.mainDone {
			s.out.Deadlock = true
			for _, t := range s.threads {
				if !t.dead && t.pending != nil {
					s.out.Blocked = append(s.out.Blocked, fmt.Sprintf("thread %d (%s) blocked on %s", t.id, t.name, opName(t.pending.kind)))
				}
			}
		}
		s.finish()
		if me.dead {
			return
		}
		s.parkForever(me)
	}
	var tids []int
	if debugThreads && len(en) > 1 && !s.mainDone {
		tids = make([]int, len(en))
		for i, t := range en {
			tids[i] = t.id
		}
	}
	next := en[s.choose(len(en), KindThread, curEn, tids)]
	if next == me {
		return
	}
	s.cur = next
	next.wake <- struct{}{}
	if me.dead {
		return
	}
	<-me.wake
	if s.inert() {
		runtime.Goexit()
	}
}

// point announces op as the pending operation of the running thread and returns when the
// scheduler lets it proceed (op enabled or completed by a partner).
func (s *sched) point(o *op) {
	t := s.cur
	t.pending = o
	s.schedule()
	t.pending = nil
}

func opName(k opKind) string {
	return [...]string{"start", "Lock", "Unlock", "RLock", "RUnlock", "WaitGroup.Add", "WaitGroup.Wait", "Once.Do", "atomic", "chan send", "chan recv", "close", "select", "monitor", "choose", "yield", "go", "timer"}[k]
}

var alwaysEnabled = func() bool { return true }

// debugThreads records the enabled thread ids at every choice point (VSCHED_DEBUG=1).
var debugThreads = os.Getenv("VSCHED_DEBUG") != ""

// Go starts f as a controlled thread (or a plain goroutine in pass-through mode).
func Go(f func()) {
	s := cur()
	if s == nil {
		go f()
		return
	}
	if s.inert() {
		return // teardown: deferred code must not start goroutines that outlive the execution
	}
	s.spawn(f, "")
}

func (s *sched) spawn(f func(), name string) *thread {
	t := &thread{id: len(s.threads), wake: make(chan struct{}, 1), exited: make(chan struct{}), name: name}
	t.pending = &op{kind: opStart, enabled: alwaysEnabled}
	if s.cur != nil {
		s.event(s.cur, opGo, nil, false, uint64(t.id))
		t.last = s.cur.last
	}
	s.threads = append(s.threads, t)
	go func() {
		defer close(t.exited)
		defer s.threadExit(t)
		<-t.wake
		if s.inert() {
			return
		}
		t.pending = nil
		s.event(t, opStart, nil, false, 0)
		f()
	}()
	return t
}

func (s *sched) threadExit(t *thread) {
	r := recover()
	if s.inert() {
		return
	}
	if r != nil {
		if _, ok := r.(abortSignal); !ok {
			s.out.Panics = append(s.out.Panics, fmt.Sprintf("thread %d (%s): panic: %v\n%s", t.id, t.name, r, trimStack(debug.Stack())))
		}
	}
	t.dead = true
	t.pending = nil
	s.event(t, opStart, nil, false, 1) // exit event: the set of live threads is part of the state
	if t.id == 0 {
		s.mainDone = true
		s.out.MainDone = true
		if r != nil {
			// main panicked: stop here
			s.finish()
			return
		}
	}
	if s.cur == t {
		s.schedule()
	}
}

func trimStack(b []byte) string {
	if len(b) > 3000 {
		b = b[:3000]
	}
	return string(b)
}

// Yield is a visible no-op (used in polling loops: Sleep).
func Yield() {
	s := cur()
	if s == nil || s.inert() {
		runtime.Gosched()
		return
	}
	s.point(&op{kind: opYield, enabled: alwaysEnabled})
	s.event(s.cur, opYield, nil, false, 0)
}

// Touch is the visible yield placed before every native atomic / sync.Map operation.
func Touch(p unsafe.Pointer) {
	s := cur()
	if s == nil || s.inert() {
		return
	}
	s.point(&op{kind: opTouch, enabled: alwaysEnabled})
	s.event(s.cur, opTouch, s.obj(p), false, 0)
}

// Choose is an environment choice with n alternatives (0 is the default answer; any other
// answer costs one deviation). In pass-through mode it returns 0.
func Choose(n int) int {
	s := cur()
	if s == nil || s.inert() || n <= 1 {
		return 0
	}
	c := s.choose(n, KindEnv, false, nil)
	s.event(s.cur, opChoose, nil, false, uint64(c))
	return c
}

// FreeChoose is a choice that costs nothing (e.g. which ready select case Go would pick).
func (s *sched) freeChoose(n int) int { return s.choose(n, KindFree, false, nil) }

// ---------------------------------------------------------------- execution driver

// Config of one controlled execution.
type runConfig struct {
	prefix  []int
	horizon int
	ex      *Explorer
	timeout time.Duration
}

// runOnce executes body as thread 0 under the scheduler following prefix.
func runOnce(cfg runConfig, body func()) Outcome {
	gmu.Lock()
	defer gmu.Unlock()
	s := &sched{
		prefix: cfg.prefix, horizon: cfg.horizon, finished: make(chan struct{}),
		chans: map[unsafe.Pointer]*chanModel{}, objs: map[unsafe.Pointer]*objInfo{}, ex: cfg.ex,
	}
	if s.horizon == 0 {
		s.horizon = 200000
	}
	g.Store(s)
	main := s.spawn(body, "main")
	s.cur = main
	main.wake <- struct{}{}
	to := cfg.timeout
	if to == 0 {
		// guards against a thread blocked in a primitive the scheduler does not control. Generous on
		// purpose: executions take milliseconds, but a loaded machine (16 explorer processes, page
		// cache pressure) has stalled one for more than a minute
		to = 10 * time.Minute
	}
	select {
	case <-s.finished:
	case <-time.After(to):
		// a thread is blocked in an uncontrolled primitive or runs forever
		buf := make([]byte, 1<<16)
		n := runtime.Stack(buf, true)
		fmt.Printf("INFRA-ERROR: execution did not reach a scheduling point within %v (uncontrolled blocking?)\n%s\n", to, buf[:n])
		panic("vsched: watchdog timeout")
	}
	// teardown: one thread at a time
	s.aborting.Store(true)
	for i := 0; i < len(s.threads); i++ { // threads may not grow during teardown (Go passes through)
		t := s.threads[i]
		select {
		case <-t.exited:
			continue
		default:
		}
		select {
		case t.wake <- struct{}{}:
		default:
		}
		select {
		case <-t.exited:
		case <-time.After(to):
			panic("vsched: thread did not exit during teardown")
		}
	}
	g.Store(nil)
	for _, t := range s.threads {
		if !t.dead && !s.out.Cut {
			k := "start"
			if t.pending != nil {
				k = opName(t.pending.kind)
			}
			s.out.Parked = append(s.out.Parked, fmt.Sprintf("%d:%s", t.id, k))
		}
	}
	s.out.Points = s.points
	s.out.Steps = s.steps
	if s.out.Diverged == "" && s.pos < len(s.prefix) && !s.out.Cut {
		s.out.Diverged = fmt.Sprintf("replay prefix not consumed: %d of %d choices used", s.pos, len(s.prefix))
	}
	return s.out
}
