package vsched

import (
	"sync"
	"unsafe"
)

// Modelled replacements for sync.{Mutex,RWMutex,WaitGroup,Once}. Three modes per call:
// no execution active -> native primitive; teardown (inert) -> no-op; controlled -> visible op.

type Mutex struct {
	real sync.Mutex
	gen  *sched
	held bool
}

func (m *Mutex) sync(s *sched) {
	if m.gen != s {
		m.gen, m.held = s, false
	}
}

func (m *Mutex) Lock() {
	s := cur()
	if s == nil {
		m.real.Lock()
		return
	}
	if s.inert() {
		return
	}
	m.sync(s)
	s.point(&op{kind: opLock, enabled: func() bool { return !m.held }})
	m.held = true
	s.event(s.cur, opLock, s.obj(unsafe.Pointer(m)), false, 0)
}

func (m *Mutex) TryLock() bool {
	s := cur()
	if s == nil {
		return m.real.TryLock()
	}
	if s.inert() {
		return true
	}
	m.sync(s)
	s.point(&op{kind: opLock, enabled: alwaysEnabled})
	ok := !m.held
	if ok {
		m.held = true
	}
	s.event(s.cur, opLock, s.obj(unsafe.Pointer(m)), false, 1)
	return ok
}

func (m *Mutex) Unlock() {
	s := cur()
	if s == nil {
		m.real.Unlock()
		return
	}
	if s.inert() {
		return
	}
	m.sync(s)
	s.point(&op{kind: opUnlock, enabled: alwaysEnabled})
	if !m.held {
		panic("sync: unlock of unlocked mutex")
	}
	m.held = false
	s.event(s.cur, opUnlock, s.obj(unsafe.Pointer(m)), false, 0)
}

type RWMutex struct {
	real    sync.RWMutex
	gen     *sched
	writer  bool
	readers int
}

func (m *RWMutex) sync(s *sched) {
	if m.gen != s {
		m.gen, m.writer, m.readers = s, false, 0
	}
}

func (m *RWMutex) Lock() {
	s := cur()
	if s == nil {
		m.real.Lock()
		return
	}
	if s.inert() {
		return
	}
	m.sync(s)
	s.point(&op{kind: opLock, enabled: func() bool { return !m.writer && m.readers == 0 }})
	m.writer = true
	s.event(s.cur, opLock, s.obj(unsafe.Pointer(m)), false, 0)
}

func (m *RWMutex) Unlock() {
	s := cur()
	if s == nil {
		m.real.Unlock()
		return
	}
	if s.inert() {
		return
	}
	m.sync(s)
	s.point(&op{kind: opUnlock, enabled: alwaysEnabled})
	if !m.writer {
		panic("sync: Unlock of unlocked RWMutex")
	}
	m.writer = false
	s.event(s.cur, opUnlock, s.obj(unsafe.Pointer(m)), false, 0)
}

func (m *RWMutex) RLock() {
	s := cur()
	if s == nil {
		m.real.RLock()
		return
	}
	if s.inert() {
		return
	}
	m.sync(s)
	s.point(&op{kind: opRLock, enabled: func() bool { return !m.writer }})
	m.readers++
	s.event(s.cur, opRLock, s.obj(unsafe.Pointer(m)), true, 0)
}

func (m *RWMutex) RUnlock() {
	s := cur()
	if s == nil {
		m.real.RUnlock()
		return
	}
	if s.inert() {
		return
	}
	m.sync(s)
	s.point(&op{kind: opRUnlock, enabled: alwaysEnabled})
	if m.readers <= 0 {
		panic("sync: RUnlock of unlocked RWMutex")
	}
	m.readers--
	s.event(s.cur, opRUnlock, s.obj(unsafe.Pointer(m)), true, 0)
}

type rlocker RWMutex

func (r *rlocker) Lock()   { (*RWMutex)(r).RLock() }
func (r *rlocker) Unlock() { (*RWMutex)(r).RUnlock() }

func (m *RWMutex) RLocker() sync.Locker { return (*rlocker)(m) }

type WaitGroup struct {
	real sync.WaitGroup
	gen  *sched
	n    int
}

func (w *WaitGroup) sync(s *sched) {
	if w.gen != s {
		w.gen, w.n = s, 0
	}
}

func (w *WaitGroup) Add(delta int) {
	s := cur()
	if s == nil {
		w.real.Add(delta)
		return
	}
	if s.inert() {
		return
	}
	w.sync(s)
	s.point(&op{kind: opWgAdd, enabled: alwaysEnabled})
	w.n += delta
	if w.n < 0 {
		panic("sync: negative WaitGroup counter")
	}
	s.event(s.cur, opWgAdd, s.obj(unsafe.Pointer(w)), false, uint64(int64(delta)))
}

func (w *WaitGroup) Done() { w.Add(-1) }

func (w *WaitGroup) Wait() {
	s := cur()
	if s == nil {
		w.real.Wait()
		return
	}
	if s.inert() {
		return
	}
	w.sync(s)
	s.point(&op{kind: opWgWait, enabled: func() bool { return w.n == 0 }})
	s.event(s.cur, opWgWait, s.obj(unsafe.Pointer(w)), false, 0)
}

type Once struct {
	real    sync.Once
	gen     *sched
	done    bool
	running bool
	owner   *thread
}

func (o *Once) sync(s *sched) {
	if o.gen != s {
		o.gen, o.done, o.running, o.owner = s, false, false, nil
	}
}

func (o *Once) Do(f func()) {
	s := cur()
	if s == nil {
		o.real.Do(f)
		return
	}
	if s.inert() {
		return
	}
	o.sync(s)
	s.point(&op{kind: opOnce, enabled: func() bool { return !o.running }})
	s.event(s.cur, opOnce, s.obj(unsafe.Pointer(o)), false, 0)
	if o.done {
		return
	}
	o.running, o.owner = true, s.cur
	defer func() {
		if s.inert() {
			return
		}
		o.running, o.done = false, true
		s.event(s.cur, opOnce, s.obj(unsafe.Pointer(o)), false, 1)
	}()
	f()
}

// Monitor is the oracle-side visible object of DESIGN §2.1: anything an oracle orders must
// go through a monitor so that every order of conflicting sections is enumerated.
type Monitor struct {
	gen      *sched
	readers  int
	writers  int
	Conflict bool // a write section overlapped another section
	Log      []MonEntry
}

// MonEntry is one section entry recorded by a Monitor.
type MonEntry struct {
	Tag   int
	Write bool
	Exit  bool
}

func (m *Monitor) sync(s *sched) {
	if m.gen != s {
		m.gen, m.readers, m.writers, m.Conflict, m.Log = s, 0, 0, false, nil
	}
}

// Enter begins a section (write = exclusive intent). It never blocks; an overlap that
// violates exclusivity is recorded in Conflict.
func (m *Monitor) Enter(write bool, tag int) {
	s := cur()
	if s == nil || s.inert() {
		return
	}
	m.sync(s)
	s.point(&op{kind: opMonitor, enabled: alwaysEnabled})
	if m.writers > 0 || (write && m.readers > 0) {
		m.Conflict = true
	}
	if write {
		m.writers++
	} else {
		m.readers++
	}
	m.Log = append(m.Log, MonEntry{tag, write, false})
	s.event(s.cur, opMonitor, s.obj(unsafe.Pointer(m)), !write, 0)
}

// Exit ends a section.
func (m *Monitor) Exit(write bool, tag ...int) {
	s := cur()
	if s == nil || s.inert() {
		return
	}
	m.sync(s)
	s.point(&op{kind: opMonitor, enabled: alwaysEnabled})
	if write {
		m.writers--
	} else {
		m.readers--
	}
	if len(tag) > 0 {
		m.Log = append(m.Log, MonEntry{tag[0], write, true})
	}
	s.event(s.cur, opMonitor, s.obj(unsafe.Pointer(m)), !write, 1)
}
