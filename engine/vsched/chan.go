package vsched

import (
	"unsafe"
)

// Channel shims. Channels keep their native type (struct fields and signatures of the
// instrumented code are unchanged); in a controlled execution their state lives in a side
// table keyed by channel identity and values travel through that table. Channels that were
// not created by instrumented code during the execution are "foreign": they are polled
// natively without blocking.

type chanModel struct {
	cap    int
	q      []any
	closed bool
}

func chanPtr[T any](c chan T) unsafe.Pointer    { return *(*unsafe.Pointer)(unsafe.Pointer(&c)) }
func rchanPtr[T any](c <-chan T) unsafe.Pointer { return *(*unsafe.Pointer)(unsafe.Pointer(&c)) }
func schanPtr[T any](c chan<- T) unsafe.Pointer { return *(*unsafe.Pointer)(unsafe.Pointer(&c)) }

// Make replaces make(chan T, n).
func Make[T any](n int) chan T {
	c := make(chan T, n)
	s := cur()
	if s == nil || s.inert() {
		return c
	}
	s.chans[chanPtr(c)] = &chanModel{cap: n}
	return c
}

// ---- readiness

func (s *sched) partnerExists(me *thread, ch unsafe.Pointer, wantSend bool) bool {
	for _, t := range s.threads {
		if t == me || t.dead || t.pending == nil || t.pending.done {
			continue
		}
		for i := range t.pending.cases {
			c := &t.pending.cases[i]
			if c.ch == ch && c.send == wantSend {
				return true
			}
		}
	}
	return false
}

func (s *sched) partners(me *thread, ch unsafe.Pointer, wantSend bool) (ts []*thread, idx []int) {
	for _, t := range s.threads {
		if t == me || t.dead || t.pending == nil || t.pending.done {
			continue
		}
		for i := range t.pending.cases {
			c := &t.pending.cases[i]
			if c.ch == ch && c.send == wantSend {
				ts = append(ts, t)
				idx = append(idx, i)
				break
			}
		}
	}
	return
}

func (s *sched) caseReady(me *thread, c *selCase) bool {
	if c.ch == nil {
		return false
	}
	m := c.cm
	if m == nil {
		return false // foreign: handled by prefetch in pollForeign
	}
	if c.send {
		if m.closed {
			return true // will panic
		}
		if m.cap > 0 {
			return len(m.q) < m.cap
		}
		return s.partnerExists(me, c.ch, false)
	}
	if len(m.q) > 0 || m.closed {
		return true
	}
	return m.cap == 0 && s.partnerExists(me, c.ch, true)
}

// pollForeign tries the foreign cases natively (non-blocking); on success the op is
// completed on the spot ("foreign events win as soon as they are visible").
func (o *op) pollForeign() bool {
	for i := range o.cases {
		c := &o.cases[i]
		if c.cm == nil && c.ch != nil && c.tryNative != nil {
			if v, ok, done := c.tryNative(); done {
				o.done, o.selIdx, o.val, o.ok = true, i, v, ok
				return true
			}
		}
	}
	return false
}

func (s *sched) chanOpEnabled(t *thread, o *op) func() bool {
	return func() bool {
		if o.done {
			return true
		}
		for i := range o.cases {
			if s.caseReady(t, &o.cases[i]) {
				return true
			}
		}
		if o.pollForeign() {
			return true
		}
		return o.hasDef
	}
}

// execChanOp performs the pending channel operation of the running thread: picks a ready
// case (a free choice if several are ready) and applies it to the model.
func (s *sched) execChanOp(o *op) (idx int, val any, ok bool) {
	t := s.cur
	if o.done {
		// completed by a partner (rendezvous) or by a foreign prefetch
		s.event(t, o.kind, nil, false, uint64(o.selIdx)+100)
		return o.selIdx, o.val, o.ok
	}
	var ready []int
	for i := range o.cases {
		if s.caseReady(t, &o.cases[i]) {
			ready = append(ready, i)
		}
	}
	if len(ready) == 0 {
		if o.pollForeign() {
			s.event(t, o.kind, nil, false, uint64(o.selIdx)+100)
			return o.selIdx, o.val, o.ok
		}
		if !o.hasDef {
			panic("vsched: channel op scheduled while not ready")
		}
		s.event(t, o.kind, nil, false, 99)
		return -1, nil, false
	}
	i := ready[s.freeChoose(len(ready))]
	c := &o.cases[i]
	m := c.cm
	ob := s.obj(c.ch)
	if c.send {
		if m.closed {
			s.event(t, opSend, ob, false, 7)
			panic("send on closed channel")
		}
		if m.cap > 0 {
			m.q = append(m.q, c.val)
			s.event(t, opSend, ob, false, uint64(i))
			return i, nil, true
		}
		// rendezvous with a parked receiver
		ps, pi := s.partners(t, c.ch, false)
		k := s.freeChoose(len(ps))
		p := ps[k]
		p.pending.done, p.pending.selIdx, p.pending.val, p.pending.ok = true, pi[k], c.val, true
		s.event(t, opSend, ob, false, uint64(i)<<8|uint64(p.id))
		p.last = mix(p.last, t.last) // the receiver's next event depends on this send
		return i, nil, true
	}
	// receive
	if len(m.q) > 0 {
		v := m.q[0]
		m.q = m.q[1:]
		s.event(t, opRecv, ob, false, uint64(i))
		return i, v, true
	}
	if m.cap == 0 {
		if ps, pi := s.partners(t, c.ch, true); len(ps) > 0 {
			k := s.freeChoose(len(ps))
			p := ps[k]
			v := p.pending.cases[pi[k]].val
			p.pending.done, p.pending.selIdx, p.pending.ok = true, pi[k], true
			s.event(t, opRecv, ob, false, uint64(i)<<8|uint64(p.id))
			p.last = mix(p.last, t.last)
			return i, v, true
		}
	}
	if m.closed {
		s.event(t, opRecv, ob, false, 8)
		return i, nil, false
	}
	panic("vsched: receive scheduled while not ready")
}

func (s *sched) lookup(p unsafe.Pointer) *chanModel { return s.chans[p] }

func (s *sched) runChanOp(o *op) (int, any, bool) {
	o.enabled = s.chanOpEnabled(s.cur, o)
	s.point(o)
	return s.execChanOp(o)
}

// Send replaces ch <- v.
func Send[T any](ch chan<- T, v T) {
	s := cur()
	if s == nil {
		ch <- v
		return
	}
	if s.inert() {
		return
	}
	p := schanPtr(ch)
	c := selCase{send: true, ch: p, cm: s.lookup(p), val: v}
	if c.cm == nil && p != nil {
		c.tryNative = func() (any, bool, bool) {
			select {
			case ch <- v:
				return nil, true, true
			default:
				return nil, false, false
			}
		}
	}
	s.runChanOp(&op{kind: opSend, cases: []selCase{c}})
}

func recvCase[T any](s *sched, ch <-chan T) selCase {
	p := rchanPtr(ch)
	c := selCase{ch: p, cm: s.lookup(p)}
	if c.cm == nil && p != nil {
		c.tryNative = func() (any, bool, bool) {
			select {
			case v, ok := <-ch:
				return v, ok, true
			default:
				return nil, false, false
			}
		}
	}
	return c
}

// Recv2 replaces v, ok := <-ch.
func Recv2[T any](ch <-chan T) (T, bool) {
	s := cur()
	if s == nil {
		v, ok := <-ch
		return v, ok
	}
	var zero T
	if s.inert() {
		return zero, false
	}
	_, v, ok := s.runChanOp(&op{kind: opRecv, cases: []selCase{recvCase(s, ch)}})
	if v == nil {
		return zero, ok
	}
	return v.(T), ok
}

// Recv replaces <-ch.
func Recv[T any](ch <-chan T) T {
	v, _ := Recv2(ch)
	return v
}

// Close replaces close(ch).
func Close[T any](ch chan<- T) {
	s := cur()
	if s == nil {
		close(ch)
		return
	}
	if s.inert() {
		return
	}
	p := schanPtr(ch)
	m := s.lookup(p)
	s.point(&op{kind: opClose, enabled: alwaysEnabled})
	if m == nil {
		close(ch)
		s.event(s.cur, opClose, s.obj(p), false, 0)
		return
	}
	if m.closed {
		s.event(s.cur, opClose, s.obj(p), false, 1)
		panic("close of closed channel")
	}
	m.closed = true
	s.event(s.cur, opClose, s.obj(p), false, 0)
}

// Len replaces len(ch) for modelled channels.
func Len[T any](ch chan T) int {
	s := cur()
	if s == nil || s.inert() {
		return len(ch)
	}
	if m := s.lookup(chanPtr(ch)); m != nil {
		return len(m.q)
	}
	return len(ch)
}

// ---- select

// Case is one case of a rewritten select statement.
type Case struct {
	c selCase
}

// RCase is a typed receive case.
type RCase[T any] struct{ c Case }

// C returns the untyped case for Select.
func (r RCase[T]) C() Case { return r.c }

// Get returns the received value if this case was chosen.
func (r RCase[T]) Get(s Sel) (T, bool) {
	var zero T
	if s.val == nil {
		return zero, s.ok
	}
	return s.val.(T), s.ok
}

// SCase is a send case.
type SCase struct{ c Case }

// C returns the untyped case for Select.
func (s SCase) C() Case { return s.c }

// RecvCase builds a receive case.
func RecvCase[T any](ch <-chan T) RCase[T] {
	s := cur()
	if s == nil || s.inert() {
		return RCase[T]{Case{c: selCase{ch: rchanPtr(ch), tryNative: func() (any, bool, bool) {
			select {
			case v, ok := <-ch:
				return v, ok, true
			default:
				return nil, false, false
			}
		}}}}
	}
	return RCase[T]{Case{c: recvCase(s, ch)}}
}

// SendCase builds a send case.
func SendCase[T any](ch chan<- T, v T) SCase {
	p := schanPtr(ch)
	c := selCase{send: true, ch: p, val: v}
	s := cur()
	if s != nil && !s.inert() {
		c.cm = s.lookup(p)
	}
	if c.cm == nil && p != nil {
		c.tryNative = func() (any, bool, bool) {
			select {
			case ch <- v:
				return nil, true, true
			default:
				return nil, false, false
			}
		}
	}
	return SCase{Case{c: c}}
}

// Sel is the result of a Select: the index of the chosen case (-1 = default) and, for a
// receive case, the value.
type Sel struct {
	Index int
	val   any
	ok    bool
}

// Select replaces a select statement.
func Select(hasDefault bool, cases ...Case) Sel {
	s := cur()
	if s == nil || (s != nil && s.inert()) {
		if s != nil {
			return Sel{Index: -1}
		}
		// pass-through: poll natively, yielding between rounds (semantically a select)
		for spin := 0; ; spin++ {
			for i := range cases {
				if cases[i].c.ch == nil {
					continue
				}
				if v, ok, done := cases[i].c.tryNative(); done {
					return Sel{i, v, ok}
				}
			}
			if hasDefault {
				return Sel{Index: -1}
			}
			passThroughBackoff(spin)
		}
	}
	o := &op{kind: opSelect, hasDef: hasDefault, cases: make([]selCase, len(cases))}
	for i := range cases {
		o.cases[i] = cases[i].c
	}
	i, v, ok := s.runChanOp(o)
	return Sel{i, v, ok}
}
