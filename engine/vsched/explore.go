package vsched

import (
	"fmt"
	"os"
	"strconv"
	"time"
)

// Explorer enumerates every execution of Body within the preemption / deviation bounds by
// depth-first search over choice sequences (stateless: each execution re-runs Body from
// scratch following a choice prefix), cutting executions that reach a state (happens-before
// fingerprint) already explored with no larger cost.
type Explorer struct {
	// Body is the harness: it builds fresh real objects, runs the scenario as thread 0 and
	// leaves its observations in variables the Check closure can read.
	Body func()
	// Check is the oracle, evaluated after every complete execution. It returns a violation
	// key and description (empty key = held).
	Check func(out *Outcome) (key, what string)
	// MaxPreemptions / MaxDeviations bound the search (-1 = unbounded).
	MaxPreemptions int
	MaxDeviations  int
	// NoPrune disables the visited-state cut (for cross-checking the pruning).
	NoPrune bool
	// Stop is polled between executions.
	Stop func() bool
	// MaxExecutions caps the number of executions (0 = unlimited).
	MaxExecutions int
	Horizon       int
	// OnViolation receives each violation with the replayable choice list.
	OnViolation func(key, what string, choices []int, out *Outcome)
	// StopAtFirst stops the search at the first violation.
	StopAtFirst bool

	// statistics
	Executions         int
	Complete           int
	CutRuns            int
	Deadlocks          int
	MaxPoints          int
	Conflicting        int // complete executions in which >=2 threads touched a common object
	Violations         int
	Exhaustive         bool
	Diverged           string
	visited            map[vkey]vcost
	VisitedFull        bool // the visited-state table reached its memory bound (pruning degraded from then on)
	stopped            bool
	SampleTraces       [][]int
	firstViolation     bool
	divergenceReported bool
}

type vkey struct {
	f1, f2 uint64
	cur    int32
}

type vcost struct{ pre, dev int16 }

func (e *Explorer) visitedCut(s *sched, curEnabled bool) bool {
	if e.NoPrune {
		return false
	}
	k := vkey{s.f1, s.f2, -1}
	if curEnabled {
		k.cur = int32(s.cur.id)
	}
	c := vcost{int16(s.pre), int16(s.dev)}
	if o, ok := e.visited[k]; ok {
		if o.pre <= c.pre && o.dev <= c.dev {
			return true
		}
		// keep one entry per state (pointer-free map => no GC scanning): the dominated or,
		// if incomparable, the one with the larger total is dropped. Dropping an entry only
		// loses pruning, never soundness.
		if !(c.pre <= o.pre && c.dev <= o.dev) && o.pre+o.dev <= c.pre+c.dev {
			return false
		}
	}
	if len(e.visited) >= maxVisited {
		// memory bound: stop recording new states (existing entries keep pruning). This only
		// loses pruning, never soundness; VisitedFull is reported so a capped run says why.
		if _, ok := e.visited[k]; !ok {
			e.VisitedFull = true
			return false
		}
	}
	e.visited[k] = c
	return false
}

// maxVisited bounds the visited-state table of one explorer (~60 bytes per entry; the checks run up
// to 16 explorer processes side by side). VERIF_MAX_VISITED overrides.
var maxVisited = func() int {
	if v, err := strconv.Atoi(os.Getenv("VERIF_MAX_VISITED")); err == nil && v > 0 {
		return v
	}
	if os.Getenv("VERIF_TIER") == "quick" {
		// quick runs end within minutes (5-minute deadline), so their tables stay small in practice;
		// the tight bound is for the 30-minute thorough runs that exhausted the machine
		return 40_000_000
	}
	return 12_000_000
}()

// Run performs the search. It returns false if a replay divergence (infrastructure error)
// occurred.
func (e *Explorer) Run() bool {
	e.visited = map[vkey]vcost{}
	e.Exhaustive = true
	e.explore(nil)
	if e.stopped {
		e.Exhaustive = false
	}
	return e.Diverged == ""
}

func (e *Explorer) runPrefix(prefix []int, prune bool) Outcome {
	cfg := runConfig{prefix: prefix, horizon: e.Horizon}
	if prune {
		cfg.ex = e
	}
	return runOnce(cfg, e.Body)
}

func (e *Explorer) explore(prefix []int) {
	if e.stopped || e.Diverged != "" {
		return
	}
	if (e.Stop != nil && e.Stop()) || (e.MaxExecutions > 0 && e.Executions >= e.MaxExecutions) {
		e.stopped = true
		return
	}
	out := e.runPrefix(prefix, true)
	e.Executions++
	if out.Diverged != "" {
		e.Diverged = fmt.Sprintf("%s (prefix %v)", out.Diverged, prefix)
		return
	}
	if len(out.Points) > e.MaxPoints {
		e.MaxPoints = len(out.Points)
	}
	choices := make([]int, len(out.Points))
	for i, p := range out.Points {
		choices[i] = p.Chosen
	}
	if out.Cut {
		e.CutRuns++
	} else {
		e.Complete++
		if out.Conflicts > 0 {
			e.Conflicting++
		}
		if out.Deadlock {
			e.Deadlocks++
		}
		if len(e.SampleTraces) < 3 && len(choices) > 0 {
			e.SampleTraces = append(e.SampleTraces, choices)
		}
		if key, what := e.check(&out); key != "" {
			// replay twice before believing it
			ok := true
			for i := 0; i < 2; i++ {
				o2 := e.runPrefix(choices, false)
				k2, _ := e.check(&o2)
				if o2.Diverged != "" || k2 != key {
					e.Diverged = fmt.Sprintf("violation %q did not replay deterministically (got %q, %s) choices %v", key, k2, o2.Diverged, choices)
					ok = false
					break
				}
			}
			if !ok {
				return
			}
			e.Violations++
			if e.OnViolation != nil {
				e.OnViolation(key, what, choices, &out)
			}
			if e.StopAtFirst {
				e.stopped = true
				e.firstViolation = true
				return
			}
		}
	}
	// branch on every later choice point within the bounds
	pre, dev := 0, 0
	for i, p := range out.Points {
		if i >= len(prefix) && p.N > 1 {
			for alt := 1; alt < p.N; alt++ {
				cp, cd := pre, dev
				switch p.Kind {
				case KindThread:
					if p.CurEnabled {
						cp++
					}
				case KindEnv:
					cd++
				}
				if (e.MaxPreemptions >= 0 && cp > e.MaxPreemptions) || (e.MaxDeviations >= 0 && cd > e.MaxDeviations) {
					continue
				}
				np := make([]int, i+1)
				copy(np, choices[:i])
				np[i] = alt
				e.explore(np)
				if e.Diverged != "" && !e.divergenceReported {
					e.divergenceReported = true
					// diagnose: is the parent execution itself reproducible?
					r1 := e.runPrefix(prefix, false)
					r2 := e.runPrefix(choices[:i], false)
					desc := func(o Outcome) string {
						if i < len(o.Points) {
							return fmt.Sprintf("N=%d threads=%v cur=%v kind=%d (points=%d cut=%v)", o.Points[i].N, o.Points[i].Threads, o.Points[i].CurEnabled, o.Points[i].Kind, len(o.Points), o.Cut)
						}
						return fmt.Sprintf("only %d points", len(o.Points))
					}
					e.Diverged += fmt.Sprintf(" | parent prefix len %d, branching point %d recorded as N=%d threads=%v cur=%v kind=%d cut=%v; re-run of parent prefix: %s; re-run of choices[:i]: %s", len(prefix), i, p.N, p.Threads, p.CurEnabled, p.Kind, out.Cut, desc(r1), desc(r2))
				}
				if e.stopped || e.Diverged != "" {
					return
				}
			}
		}
		if p.Chosen > 0 {
			switch p.Kind {
			case KindThread:
				if p.CurEnabled {
					pre++
				}
			case KindEnv:
				dev++
			}
		}
	}
}

func (e *Explorer) check(out *Outcome) (string, string) {
	if len(out.Panics) > 0 {
		return "panic", out.Panics[0]
	}
	if out.Horizon {
		return "livelock-horizon", fmt.Sprintf("execution exceeded the step horizon (%d steps)", out.Steps)
	}
	return e.Check(out)
}

// Replay runs one choice list without exploration and returns the outcome and the verdict.
func (e *Explorer) Replay(choices []int) (Outcome, string, string) {
	out := e.runPrefix(choices, false)
	k, w := e.check(&out)
	return out, k, w
}

// Stopped reports whether the search was cut short by Stop/MaxExecutions/StopAtFirst.
func (e *Explorer) Stopped() bool { return e.stopped }

// RunFree runs Body n times free-running (no scheduler) — used by the auxiliary -race pass.
func RunFree(body func(), n int, d time.Duration) {
	start := time.Now()
	for i := 0; i < n && time.Since(start) < d; i++ {
		body()
	}
}
