package vsched

import (
	"fmt"
	"runtime"
	"sort"
	"sync/atomic"
	"time"
	"unsafe"
)

func passThroughBackoff(spin int) {
	if spin < 100 {
		runtime.Gosched()
		return
	}
	time.Sleep(50 * time.Microsecond)
}

// Keys returns the keys of m in a deterministic (ascending) order: map iteration in
// instrumented code must not depend on Go's randomised order.
func Keys[K comparable, V any](m map[K]V) []K {
	ks := make([]K, 0, len(m))
	for k := range m {
		ks = append(ks, k)
	}
	if len(ks) < 2 {
		return ks
	}
	switch any(ks[0]).(type) {
	case string:
		sort.Slice(ks, func(i, j int) bool { return any(ks[i]).(string) < any(ks[j]).(string) })
	case int:
		sort.Slice(ks, func(i, j int) bool { return any(ks[i]).(int) < any(ks[j]).(int) })
	case uint64:
		sort.Slice(ks, func(i, j int) bool { return any(ks[i]).(uint64) < any(ks[j]).(uint64) })
	case int64:
		sort.Slice(ks, func(i, j int) bool { return any(ks[i]).(int64) < any(ks[j]).(int64) })
	default:
		sk := make([]string, len(ks))
		for i := range ks {
			sk[i] = fmt.Sprintf("%v", ks[i])
		}
		idx := make([]int, len(ks))
		for i := range idx {
			idx[i] = i
		}
		sort.Slice(idx, func(a, b int) bool { return sk[idx[a]] < sk[idx[b]] })
		out := make([]K, len(ks))
		for i, x := range idx {
			out[i] = ks[x]
		}
		return out
	}
	return ks
}

// ---- virtual timers (fire only when chosen by the scheduler or when nothing else can run)

type vtimer struct {
	armed bool
	fire  func()
}

func (s *sched) fireTimer() bool { return false }

// clockOverride, when set, freezes the clock seen by instrumented code (also outside
// controlled executions): harnesses decide what time it is.
var clockOverride atomic.Int64

// FreezeClock sets the time returned by Now (0 = real clock again).
func FreezeClock(unixMilli int64) { clockOverride.Store(unixMilli) }

// Now returns the frozen clock if set, the virtual clock in a controlled execution, else
// the real time.
func Now() time.Time {
	if ms := clockOverride.Load(); ms != 0 {
		return time.UnixMilli(ms)
	}
	s := cur()
	if s == nil || s.inert() {
		return time.Now()
	}
	return time.Unix(0, s.vnow)
}

// SetNow sets the virtual clock (harness side).
func SetNow(t time.Time) {
	if s := cur(); s != nil {
		s.vnow = t.UnixNano()
	}
}

// Sleep is a visible yield that advances the virtual clock.
func Sleep(d time.Duration) {
	s := cur()
	if s == nil || s.inert() {
		time.Sleep(d)
		return
	}
	s.vnow += int64(d)
	Yield()
}

// Since replaces time.Since.
func Since(t time.Time) time.Duration { return Now().Sub(t) }

// T is the visible yield placed before a native atomic / sync.Map operation on *p.
func T[P any](p *P) *P {
	Touch(unsafe.Pointer(p))
	return p
}

// Pointcut is an injected pointcut (crash points / gates); Hook decides what happens.
func Pointcut(id string) {
	if h := PointHook; h != nil {
		h(id)
	}
}

// PointHook is installed by crash/gating harnesses.
var PointHook func(id string)

// TimerState is the scheduler-side model of one controlled timer (see package vtimer). It
// follows avalanchego's utils/timer semantics: Stop returns only after the dispatch loop has
// exited, and the loop cannot exit while the handler is running.
type TimerState struct {
	armed, stopped, exited bool
}

func NewTimerState() *TimerState { return &TimerState{} }

func (t *TimerState) touch(extra uint64) {
	s := cur()
	if s == nil || s.inert() {
		return
	}
	s.point(&op{kind: opTimer, enabled: alwaysEnabled})
	s.event(s.cur, opTimer, s.obj(unsafe.Pointer(t)), false, extra)
}

// Arm / Disarm are visible operations on the timer object.
func (t *TimerState) Arm()    { t.touch(1); t.armed = true }
func (t *TimerState) Disarm() { t.touch(2); t.armed = false }

// Stop marks the timer finished and then BLOCKS until the dispatch loop has returned (the real
// timer waits on the dispatcher's wait group).
func (t *TimerState) Stop() {
	t.touch(3)
	t.stopped = true
	s := cur()
	if s == nil || s.inert() {
		return
	}
	s.point(&op{kind: opTimer, enabled: func() bool { return t.exited }})
	s.event(s.cur, opTimer, s.obj(unsafe.Pointer(t)), false, 5)
}

// Exited is called by the dispatch loop when it returns.
func (t *TimerState) Exited() { t.touch(6); t.exited = true }

// WaitFire blocks the dispatch thread until the timer is armed and the scheduler lets it
// fire (returns true, timer disarmed) or the timer was stopped (returns false).
func (t *TimerState) WaitFire() bool {
	s := cur()
	if s == nil || s.inert() {
		return false
	}
	s.point(&op{kind: opTimer, enabled: func() bool { return t.armed || t.stopped }})
	s.event(s.cur, opTimer, s.obj(unsafe.Pointer(t)), false, 4)
	if t.stopped {
		return false
	}
	t.armed = false
	return true
}
