// Package vsync stands in for "sync" in instrumented packages.
package vsync

import (
	"sync"

	"github.com/ava-labs/hypersdk/internal/vshim/vsched"
)

type (
	Mutex     = vsched.Mutex
	RWMutex   = vsched.RWMutex
	WaitGroup = vsched.WaitGroup
	Once      = vsched.Once
	Map       = sync.Map
	Pool      = sync.Pool
	Locker    = sync.Locker
)

func OnceFunc(f func()) func()             { var o Once; return func() { o.Do(f) } }
func OnceValue[T any](f func() T) func() T { return sync.OnceValue(f) }
