// Package seqx is the explicit-state search engine (E2): breadth-first search over operation
// histories executed on the real object. A state is identified by the history that reaches
// it; a successor is produced by building a fresh real instance, replaying the history and
// applying one more operation (live objects rarely copy). Canonical keys deduplicate states.
package seqx

import (
	"crypto/sha256"
	"runtime"
	"sort"
	"sync"
)

// Result of executing one history on a fresh instance.
type Result struct {
	// Key is the canonical form of the reached state: two histories with equal keys must
	// have the same futures (the caller's correctness argument). Empty key = do not dedup.
	Key string
	// Enabled lists the operations (indices into the caller's alphabet) that may follow.
	Enabled []int
	// Violation, if non-nil, is reported by the caller; the state is not expanded.
	Violation *Violation
	// Outcome is an optional label of what the last op observably did (for the count of
	// distinct outcomes in evidence).
	Outcome string
}

// Violation describes an oracle failure at the last step of a history.
type Violation struct {
	Key  string
	What string
	Data any
}

// Search configuration.
type Search struct {
	// Exec runs the whole history on a fresh instance, checking the oracle after every step.
	Exec func(hist []int) Result
	// MaxDepth bounds the history length.
	MaxDepth int
	// Workers is the number of parallel executors (default: NumCPU).
	Workers int
	// OnViolation is called (serially) for every violation, with the history.
	OnViolation func(hist []int, v *Violation)
	// Stop is polled between levels/items; when it returns true the search stops expanding.
	Stop func() bool
	// MaxStates caps the number of distinct states (0 = unlimited).
	MaxStates int
}

// Stats of a finished search.
type Stats struct {
	States      int
	Transitions int
	MaxDepth    int
	Outcomes    map[string]int
	Complete    bool // false if Stop or MaxStates cut the search
	Frontier    int  // states left unexpanded at MaxDepth
	Samples     [][]int
}

type item struct {
	hist    []int
	enabled []int
}

// Run performs the search from the empty history.
func (s *Search) Run() Stats {
	w := s.Workers
	if w <= 0 {
		w = runtime.NumCPU()
	}
	st := Stats{Outcomes: map[string]int{}, Complete: true}
	seen := map[[16]byte]struct{}{}
	root := s.Exec(nil)
	st.States = 1
	if root.Violation != nil {
		s.OnViolation(nil, root.Violation)
		return st
	}
	if root.Key != "" {
		seen[hkey(root.Key)] = struct{}{}
	}
	level := []item{{nil, root.Enabled}}
	for depth := 0; depth < s.MaxDepth && len(level) > 0; depth++ {
		type job struct {
			hist []int
		}
		type out struct {
			hist []int
			res  Result
		}
		var jobs []job
		for _, it := range level {
			for _, op := range it.enabled {
				h := append(append(make([]int, 0, len(it.hist)+1), it.hist...), op)
				jobs = append(jobs, job{h})
			}
		}
		outs := make([]out, len(jobs))
		var wg sync.WaitGroup
		ch := make(chan int, len(jobs))
		for i := range jobs {
			ch <- i
		}
		close(ch)
		stopped := false
		var mu sync.Mutex
		for k := 0; k < w; k++ {
			wg.Add(1)
			go func() {
				defer wg.Done()
				for i := range ch {
					if s.Stop != nil && s.Stop() {
						mu.Lock()
						stopped = true
						mu.Unlock()
						continue
					}
					res := s.Exec(jobs[i].hist)
					if res.Violation == nil && res.Key != "" {
						// seen is read-only during the parallel phase: a state already known from an
						// earlier level needs no successor list (saves memory; same-level duplicates
						// are resolved deterministically in the serial phase below)
						if _, dup := seen[hkey(res.Key)]; dup {
							res.Enabled = nil
						}
					}
					outs[i] = out{jobs[i].hist, res}
				}
			}()
		}
		wg.Wait()
		var next []item
		for _, o := range outs {
			if o.hist == nil {
				continue // skipped because of Stop
			}
			st.Transitions++
			if o.res.Outcome != "" {
				st.Outcomes[o.res.Outcome]++
			}
			if o.res.Violation != nil {
				s.OnViolation(o.hist, o.res.Violation)
				continue
			}
			if o.res.Key != "" {
				hk := hkey(o.res.Key)
				if _, ok := seen[hk]; ok {
					continue
				}
				seen[hk] = struct{}{}
			}
			st.States++
			if len(o.hist) > st.MaxDepth {
				st.MaxDepth = len(o.hist)
			}
			if len(st.Samples) < 3 || (st.States%997 == 0 && len(st.Samples) < 6) {
				st.Samples = append(st.Samples, o.hist)
			}
			next = append(next, item{o.hist, o.res.Enabled})
			if s.MaxStates > 0 && st.States >= s.MaxStates {
				st.Complete = false
			}
		}
		if stopped || !st.Complete {
			st.Complete = false
			st.Frontier = len(next)
			return st
		}
		sort.SliceStable(next, func(i, j int) bool { return less(next[i].hist, next[j].hist) })
		level = next
	}
	st.Frontier = len(level)
	return st
}

func less(a, b []int) bool {
	for i := range a {
		if i >= len(b) {
			return false
		}
		if a[i] != b[i] {
			return a[i] < b[i]
		}
	}
	return len(a) < len(b)
}

// hkey compresses a canonical key to 128 bits of SHA-256 (collisions are negligible and
// could only cost coverage of one state, never a false alarm).
func hkey(k string) [16]byte {
	h := sha256.Sum256([]byte(k))
	var o [16]byte
	copy(o[:], h[:16])
	return o
}
