// inst is the E4 instrumenter: it loads the listed /repo packages with type information and
// writes rewritten copies (synchronisation operations replaced by vsched/vsync shims) plus a
// replace map for go build -overlay. It is re-run by ./check on every invocation, so it always
// follows the current working tree.
//
// usage: inst <config.json>
package main

import (
	"bytes"
	"encoding/json"
	"fmt"
	"go/ast"
	"go/format"
	"go/token"
	"go/types"
	"os"
	"path/filepath"
	"sort"
	"strconv"
	"strings"

	"golang.org/x/tools/go/ast/astutil"
	"golang.org/x/tools/go/packages"
)

type config struct {
	Repo      string            `json:"repo"`
	Out       string            `json:"out"`
	Packages  []string          `json:"packages"`  // relative dirs, e.g. "internal/executor"
	Pointcuts []string          `json:"pointcuts"` // "pkgdir:FuncName" or "pkgdir:Recv.Method"
	Base      map[string]string `json:"base"`
	Options   map[string]any    `json:"options"`
}

const (
	schedPath = "github.com/ava-labs/hypersdk/internal/vshim/vsched"
	syncPath  = "github.com/ava-labs/hypersdk/internal/vshim/vsync"
)

func fatal(f string, a ...any) {
	fmt.Fprintf(os.Stderr, "inst: "+f+"\n", a...)
	os.Exit(2)
}

type rewriter struct {
	fset      *token.FileSet
	info      *types.Info
	pkg       *types.Package
	usedSched bool
	n         int
	file      *ast.File
	opts      map[string]any
	pointcuts map[string]bool
	pkgDir    string
	errs      []string
	count     int
	dirty     bool
}

func (r *rewriter) fresh(p string) string { r.n++; return fmt.Sprintf("vs%s%d", p, r.n) }

func (r *rewriter) sel(name string) ast.Expr {
	r.usedSched = true
	return &ast.SelectorExpr{X: ast.NewIdent("vsched"), Sel: ast.NewIdent(name)}
}

func (r *rewriter) call(name string, args ...ast.Expr) *ast.CallExpr {
	return &ast.CallExpr{Fun: r.sel(name), Args: args}
}

func (r *rewriter) typeOf(e ast.Expr) types.Type {
	if tv, ok := r.info.Types[e]; ok {
		return tv.Type
	}
	if id, ok := e.(*ast.Ident); ok {
		if o := r.info.ObjectOf(id); o != nil {
			return o.Type()
		}
	}
	return nil
}

func isChan(t types.Type) bool {
	if t == nil {
		return false
	}
	_, ok := t.Underlying().(*types.Chan)
	return ok
}

func isMap(t types.Type) bool {
	if t == nil {
		return false
	}
	_, ok := t.Underlying().(*types.Map)
	return ok
}

// atomicRecv reports whether t (or *t) is a type from sync/atomic, go.uber.org/atomic, or sync.Map.
func atomicRecv(t types.Type) bool {
	if t == nil {
		return false
	}
	if p, ok := t.(*types.Pointer); ok {
		t = p.Elem()
	}
	n, ok := t.(*types.Named)
	if !ok || n.Obj().Pkg() == nil {
		return false
	}
	switch n.Obj().Pkg().Path() {
	case "sync/atomic", "go.uber.org/atomic":
		return true
	case "sync":
		return n.Obj().Name() == "Map"
	}
	return false
}

func (r *rewriter) isBuiltin(e ast.Expr, name string) bool {
	id, ok := e.(*ast.Ident)
	if !ok || id.Name != name {
		return false
	}
	_, ok = r.info.Uses[id].(*types.Builtin)
	return ok
}

func (r *rewriter) isPkgFunc(e ast.Expr, pkgPath, name string) bool {
	s, ok := e.(*ast.SelectorExpr)
	if !ok || s.Sel.Name != name {
		return false
	}
	id, ok := s.X.(*ast.Ident)
	if !ok {
		return false
	}
	pn, ok := r.info.Uses[id].(*types.PkgName)
	return ok && pn.Imported().Path() == pkgPath
}

// ---- expression-level rewrites (post-order)

func (r *rewriter) rewriteExpr(c *astutil.Cursor) {
	switch n := c.Node().(type) {
	case *ast.UnaryExpr:
		if n.Op == token.ARROW {
			// plain receive expression (the v, ok := <-ch form is handled at statement level first)
			r.replace(c, r.call("Recv", n.X))
		}
	case *ast.CallExpr:
		switch {
		case r.isBuiltin(n.Fun, "close") && len(n.Args) == 1 && isChan(r.typeOf(n.Args[0])):
			n.Fun = r.sel("Close")
		case r.isBuiltin(n.Fun, "len") && len(n.Args) == 1 && isChan(r.typeOf(n.Args[0])):
			n.Fun = r.sel("Len")
		case r.isBuiltin(n.Fun, "cap") && len(n.Args) == 1 && isChan(r.typeOf(n.Args[0])):
			r.errs = append(r.errs, r.pos(n)+": cap(chan) is not supported")
		case r.isBuiltin(n.Fun, "make") && len(n.Args) >= 1:
			if ct, ok := n.Args[0].(*ast.ChanType); ok {
				size := ast.Expr(&ast.BasicLit{Kind: token.INT, Value: "0"})
				if len(n.Args) > 1 {
					size = n.Args[1]
				}
				r.usedSched = true
				r.replace(c, &ast.CallExpr{
					Fun:  &ast.IndexExpr{X: r.sel("Make"), Index: ct.Value},
					Args: []ast.Expr{size},
				})
			} else if isChan(r.typeOf(n.Args[0])) {
				r.errs = append(r.errs, r.pos(n)+": make of a named channel type is not supported")
			}
		case r.opt("time") && r.isPkgFunc(n.Fun, "time", "Now"):
			n.Fun = r.sel("Now")
		case r.opt("time") && r.isPkgFunc(n.Fun, "time", "Sleep"):
			n.Fun = r.sel("Sleep")
		case r.opt("time") && r.isPkgFunc(n.Fun, "time", "Since"):
			n.Fun = r.sel("Since")
		case r.opt("rand") && (r.isPkgFunc(n.Fun, "math/rand", "Intn") || r.isPkgFunc(n.Fun, "math/rand/v2", "IntN")):
			n.Fun = r.sel("Choose")
		default:
			// method call on an atomic / sync.Map value: x.M(...) -> vsched.T(&x).M(...)
			if s, ok := n.Fun.(*ast.SelectorExpr); ok {
				if selInfo, ok := r.info.Selections[s]; ok && selInfo.Kind() == types.MethodVal {
					rt := r.typeOf(s.X)
					if atomicRecv(rt) {
						if _, isPtr := rt.(*types.Pointer); isPtr {
							s.X = r.call("T", s.X)
						} else {
							s.X = r.call("T", &ast.UnaryExpr{Op: token.AND, X: s.X})
						}
					}
				} else if id, ok := s.X.(*ast.Ident); ok {
					// package-level atomic functions: atomic.AddInt64(&x, 1)
					if pn, ok := r.info.Uses[id].(*types.PkgName); ok && pn.Imported().Path() == "sync/atomic" && len(n.Args) > 0 && !isSchedCall(n.Args[0], "T") {
						n.Args[0] = r.call("T", n.Args[0])
					}
				}
			}
		}
	}
}

func (r *rewriter) replace(c *astutil.Cursor, n ast.Node) {
	c.Replace(n)
	r.dirty = true
}

func isSchedCall(e ast.Expr, name string) bool {
	c, ok := e.(*ast.CallExpr)
	if !ok {
		return false
	}
	s, ok := c.Fun.(*ast.SelectorExpr)
	if !ok || s.Sel.Name != name {
		return false
	}
	id, ok := s.X.(*ast.Ident)
	return ok && id.Name == "vsched"
}

func (r *rewriter) opt(name string) bool {
	v, _ := r.opts[name].(bool)
	return v
}

func (r *rewriter) pos(n ast.Node) string { return r.fset.Position(n.Pos()).String() }

// ---- statement-level rewrites (pre-order so that statement forms win over expression forms)

func (r *rewriter) rewriteStmt(c *astutil.Cursor) {
	switch n := c.Node().(type) {
	case *ast.SendStmt:
		r.replace(c, &ast.ExprStmt{X: r.call("Send", n.Chan, n.Value)})
	case *ast.AssignStmt:
		if len(n.Lhs) == 2 && len(n.Rhs) == 1 {
			if u, ok := n.Rhs[0].(*ast.UnaryExpr); ok && u.Op == token.ARROW {
				n.Rhs[0] = r.call("Recv2", u.X)
				r.dirty = true
			}
		}
	case *ast.ValueSpec:
		if len(n.Names) == 2 && len(n.Values) == 1 {
			if u, ok := n.Values[0].(*ast.UnaryExpr); ok && u.Op == token.ARROW {
				n.Values[0] = r.call("Recv2", u.X)
				r.dirty = true
			}
		}
	case *ast.GoStmt:
		r.replace(c, r.goStmt(n))
	case *ast.RangeStmt:
		t := r.typeOf(n.X)
		if isChan(t) {
			r.replace(c, r.rangeChan(n))
		} else if isMap(t) && !r.opt("keep_map_order") {
			_, labeled := c.Parent().(*ast.LabeledStmt)
			r.replace(c, r.rangeMap(n, labeled))
		}
	case *ast.SelectStmt:
		r.replace(c, r.selectStmt(n, nil))
	case *ast.LabeledStmt:
		if s, ok := n.Stmt.(*ast.SelectStmt); ok {
			r.replace(c, r.selectStmt(s, n.Label))
		}
	}
}

func (r *rewriter) goStmt(n *ast.GoStmt) ast.Stmt {
	call := n.Call
	var pre []ast.Stmt
	args := make([]ast.Expr, len(call.Args))
	for i, a := range call.Args {
		name := r.fresh("A")
		pre = append(pre, &ast.AssignStmt{Lhs: []ast.Expr{ast.NewIdent(name)}, Tok: token.DEFINE, Rhs: []ast.Expr{a}})
		args[i] = ast.NewIdent(name)
	}
	fun := call.Fun
	if _, isLit := fun.(*ast.FuncLit); !isLit {
		name := r.fresh("F")
		pre = append(pre, &ast.AssignStmt{Lhs: []ast.Expr{ast.NewIdent(name)}, Tok: token.DEFINE, Rhs: []ast.Expr{fun}})
		fun = ast.NewIdent(name)
	}
	inner := &ast.CallExpr{Fun: fun, Args: args, Ellipsis: call.Ellipsis}
	if call.Ellipsis.IsValid() {
		inner.Ellipsis = 1
	}
	lit := &ast.FuncLit{Type: &ast.FuncType{Params: &ast.FieldList{}}, Body: &ast.BlockStmt{List: []ast.Stmt{&ast.ExprStmt{X: inner}}}}
	goCall := &ast.ExprStmt{X: r.call("Go", lit)}
	if len(pre) == 0 {
		return goCall
	}
	return &ast.BlockStmt{List: append(pre, goCall)}
}

func (r *rewriter) rangeChan(n *ast.RangeStmt) ast.Stmt {
	okName := r.fresh("Ok")
	chName := r.fresh("C")
	valName := "_"
	var post []ast.Stmt
	if n.Key != nil {
		if id, ok := n.Key.(*ast.Ident); ok && n.Tok == token.DEFINE {
			valName = id.Name
			if id.Name != "_" {
				post = append(post, &ast.AssignStmt{Lhs: []ast.Expr{ast.NewIdent("_")}, Tok: token.ASSIGN, Rhs: []ast.Expr{ast.NewIdent(id.Name)}})
			}
		} else if n.Tok == token.ASSIGN {
			valName = r.fresh("V")
			post = append(post, &ast.AssignStmt{Lhs: []ast.Expr{n.Key}, Tok: token.ASSIGN, Rhs: []ast.Expr{ast.NewIdent(valName)}})
		}
	}
	recv := &ast.AssignStmt{Lhs: []ast.Expr{ast.NewIdent(valName), ast.NewIdent(okName)}, Tok: token.DEFINE, Rhs: []ast.Expr{r.call("Recv2", ast.NewIdent(chName))}}
	brk := &ast.IfStmt{Cond: &ast.UnaryExpr{Op: token.NOT, X: ast.NewIdent(okName)}, Body: &ast.BlockStmt{List: []ast.Stmt{&ast.BranchStmt{Tok: token.BREAK}}}}
	body := append([]ast.Stmt{recv, brk}, post...)
	body = append(body, n.Body.List...)
	// for vsC := ch; ; { v, ok := Recv2(vsC); if !ok { break }; body }  (label, break, continue keep their meaning)
	return &ast.ForStmt{
		Init: &ast.AssignStmt{Lhs: []ast.Expr{ast.NewIdent(chName)}, Tok: token.DEFINE, Rhs: []ast.Expr{n.X}},
		Body: &ast.BlockStmt{List: body},
	}
}

func pureExpr(e ast.Expr) bool {
	switch x := e.(type) {
	case *ast.Ident:
		return true
	case *ast.SelectorExpr:
		return pureExpr(x.X)
	case *ast.ParenExpr:
		return pureExpr(x.X)
	case *ast.StarExpr:
		return pureExpr(x.X)
	}
	return false
}

// rangeMap makes map iteration deterministic: iterate a sorted snapshot of the keys and
// re-check liveness (entries deleted during the loop are skipped, as Go allows).
func (r *rewriter) rangeMap(n *ast.RangeStmt, labeled bool) ast.Stmt {
	kName := r.fresh("K")
	liveName := r.fresh("L")
	var mExpr ast.Expr = n.X
	var pre []ast.Stmt
	if !labeled {
		mName := r.fresh("M")
		pre = append(pre, &ast.AssignStmt{Lhs: []ast.Expr{ast.NewIdent(mName)}, Tok: token.DEFINE, Rhs: []ast.Expr{n.X}})
		mExpr = ast.NewIdent(mName)
	} else if !pureExpr(n.X) {
		r.errs = append(r.errs, r.pos(n)+": labelled range over a non-trivial map expression is not supported")
	}
	var body []ast.Stmt
	valIdent := ast.Expr(ast.NewIdent("_"))
	var post []ast.Stmt
	if n.Value != nil {
		if n.Tok == token.DEFINE {
			valIdent = n.Value
			if id, ok := n.Value.(*ast.Ident); ok && id.Name != "_" {
				post = append(post, &ast.AssignStmt{Lhs: []ast.Expr{ast.NewIdent("_")}, Tok: token.ASSIGN, Rhs: []ast.Expr{ast.NewIdent(id.Name)}})
			}
		} else {
			tmp := r.fresh("V")
			valIdent = ast.NewIdent(tmp)
			post = append(post, &ast.AssignStmt{Lhs: []ast.Expr{n.Value}, Tok: token.ASSIGN, Rhs: []ast.Expr{ast.NewIdent(tmp)}})
		}
	}
	body = append(body, &ast.AssignStmt{
		Lhs: []ast.Expr{valIdent, ast.NewIdent(liveName)}, Tok: token.DEFINE,
		Rhs: []ast.Expr{&ast.IndexExpr{X: mExpr, Index: ast.NewIdent(kName)}},
	})
	body = append(body, &ast.IfStmt{Cond: &ast.UnaryExpr{Op: token.NOT, X: ast.NewIdent(liveName)}, Body: &ast.BlockStmt{List: []ast.Stmt{&ast.BranchStmt{Tok: token.CONTINUE}}}})
	body = append(body, post...)
	if n.Key != nil {
		if id, ok := n.Key.(*ast.Ident); !ok || id.Name != "_" {
			body = append(body, &ast.AssignStmt{Lhs: []ast.Expr{n.Key}, Tok: n.Tok, Rhs: []ast.Expr{ast.NewIdent(kName)}})
			if n.Tok == token.DEFINE {
				body = append(body, &ast.AssignStmt{Lhs: []ast.Expr{ast.NewIdent("_")}, Tok: token.ASSIGN, Rhs: []ast.Expr{n.Key}})
			}
		}
	}
	body = append(body, n.Body.List...)
	loop := &ast.RangeStmt{
		Key: ast.NewIdent("_"), Value: ast.NewIdent(kName), Tok: token.DEFINE,
		X:    r.call("Keys", mExpr),
		Body: &ast.BlockStmt{List: body},
	}
	if len(pre) == 0 {
		return loop
	}
	return &ast.BlockStmt{List: append(pre, loop)}
}

func (r *rewriter) selectStmt(n *ast.SelectStmt, label *ast.Ident) ast.Stmt {
	var pre []ast.Stmt
	var caseArgs []ast.Expr
	var clauses []ast.Stmt
	hasDefault := false
	selName := r.fresh("Sel")
	idx := 0
	for _, cl := range n.Body.List {
		cc := cl.(*ast.CommClause)
		if cc.Comm == nil {
			hasDefault = true
			clauses = append(clauses, &ast.CaseClause{List: []ast.Expr{&ast.UnaryExpr{Op: token.SUB, X: &ast.BasicLit{Kind: token.INT, Value: "1"}}}, Body: cc.Body})
			continue
		}
		cname := r.fresh("Case")
		var bodyPre []ast.Stmt
		switch s := cc.Comm.(type) {
		case *ast.SendStmt:
			pre = append(pre, &ast.AssignStmt{Lhs: []ast.Expr{ast.NewIdent(cname)}, Tok: token.DEFINE, Rhs: []ast.Expr{r.call("SendCase", s.Chan, s.Value)}})
		case *ast.ExprStmt:
			u, ok := unparen(s.X).(*ast.UnaryExpr)
			if !ok || u.Op != token.ARROW {
				r.errs = append(r.errs, r.pos(s)+": unsupported select case")
				continue
			}
			pre = append(pre, &ast.AssignStmt{Lhs: []ast.Expr{ast.NewIdent(cname)}, Tok: token.DEFINE, Rhs: []ast.Expr{r.call("RecvCase", u.X)}})
		case *ast.AssignStmt:
			u, ok := unparen(s.Rhs[0]).(*ast.UnaryExpr)
			if !ok || u.Op != token.ARROW {
				r.errs = append(r.errs, r.pos(s)+": unsupported select case")
				continue
			}
			pre = append(pre, &ast.AssignStmt{Lhs: []ast.Expr{ast.NewIdent(cname)}, Tok: token.DEFINE, Rhs: []ast.Expr{r.call("RecvCase", u.X)}})
			lhs := append([]ast.Expr{}, s.Lhs...)
			if len(lhs) == 1 {
				lhs = append(lhs, ast.NewIdent("_"))
			}
			get := &ast.CallExpr{Fun: &ast.SelectorExpr{X: ast.NewIdent(cname), Sel: ast.NewIdent("Get")}, Args: []ast.Expr{ast.NewIdent(selName)}}
			bodyPre = append(bodyPre, &ast.AssignStmt{Lhs: lhs, Tok: s.Tok, Rhs: []ast.Expr{get}})
			if s.Tok == token.DEFINE {
				for _, l := range s.Lhs {
					if id, ok := l.(*ast.Ident); ok && id.Name != "_" {
						bodyPre = append(bodyPre, &ast.AssignStmt{Lhs: []ast.Expr{ast.NewIdent("_")}, Tok: token.ASSIGN, Rhs: []ast.Expr{ast.NewIdent(id.Name)}})
					}
				}
			}
		}
		caseArgs = append(caseArgs, &ast.CallExpr{Fun: &ast.SelectorExpr{X: ast.NewIdent(cname), Sel: ast.NewIdent("C")}})
		clauses = append(clauses, &ast.CaseClause{List: []ast.Expr{&ast.BasicLit{Kind: token.INT, Value: strconv.Itoa(idx)}}, Body: append(bodyPre, cc.Body...)})
		idx++
	}
	hd := "false"
	if hasDefault {
		hd = "true"
	} else {
		// a select without default always takes a case; the default clause keeps the rewritten
		// switch a terminating statement where the select was one
		clauses = append(clauses, &ast.CaseClause{List: nil, Body: []ast.Stmt{&ast.ExprStmt{X: &ast.CallExpr{Fun: ast.NewIdent("panic"), Args: []ast.Expr{&ast.BasicLit{Kind: token.STRING, Value: `"vsched: select without default returned no case"`}}}}}})
	}
	args := append([]ast.Expr{ast.NewIdent(hd)}, caseArgs...)
	sw := &ast.SwitchStmt{
		Init: &ast.AssignStmt{Lhs: []ast.Expr{ast.NewIdent(selName)}, Tok: token.DEFINE, Rhs: []ast.Expr{r.call("Select", args...)}},
		Tag:  &ast.SelectorExpr{X: ast.NewIdent(selName), Sel: ast.NewIdent("Index")},
		Body: &ast.BlockStmt{List: clauses},
	}
	var swStmt ast.Stmt = sw
	if label != nil {
		swStmt = &ast.LabeledStmt{Label: label, Stmt: sw}
	}
	return &ast.BlockStmt{List: append(pre, swStmt)}
}

// rewriteFile applies the rewrites until a fixpoint (a replaced node's children are only
// visited in the next pass) and fixes the imports. It reports whether the file changed.
func (r *rewriter) rewriteFile(f *ast.File) bool {
	changed := false
	for pass := 0; pass < 50; pass++ {
		r.dirty = false
		astutil.Apply(f, func(c *astutil.Cursor) bool {
			r.rewriteStmt(c)
			return true
		}, func(c *astutil.Cursor) bool {
			r.rewriteExpr(c)
			return true
		})
		if !r.dirty {
			break
		}
		changed = true
		if pass == 49 {
			r.errs = append(r.errs, "rewrite did not reach a fixpoint")
		}
	}
	r.injectPointcuts(f)
	if r.usedSched {
		changed = true
	}
	for _, imp := range f.Imports {
		if imp.Path.Value == `"sync"` {
			imp.Path.Value = strconv.Quote(syncPath)
			if imp.Name == nil {
				imp.Name = ast.NewIdent("sync")
			}
			changed = true
		}
		if imp.Path.Value == `"github.com/ava-labs/avalanchego/utils/timer"` {
			imp.Path.Value = strconv.Quote("github.com/ava-labs/hypersdk/internal/vshim/vtimer")
			if imp.Name == nil {
				imp.Name = ast.NewIdent("timer")
			}
			changed = true
		}
	}
	if r.usedSched {
		astutil.AddNamedImport(r.fset, f, "vsched", schedPath)
	}
	// imports orphaned by the time/rand rewrites
	for _, path := range []string{"time", "math/rand", "math/rand/v2"} {
		if !astutil.UsesImport(f, path) {
			astutil.DeleteImport(r.fset, f, path)
		}
	}
	return changed
}

// injectPointcuts inserts vsched.Point("<pkgdir>:<func>#<n>") before each top-level statement
// of the listed functions.
func (r *rewriter) injectPointcuts(f *ast.File) {
	for _, d := range f.Decls {
		fd, ok := d.(*ast.FuncDecl)
		if !ok || fd.Body == nil {
			continue
		}
		name := fd.Name.Name
		if fd.Recv != nil && len(fd.Recv.List) == 1 {
			t := fd.Recv.List[0].Type
			if st, ok := t.(*ast.StarExpr); ok {
				t = st.X
			}
			if ix, ok := t.(*ast.IndexExpr); ok {
				t = ix.X
			}
			if ixl, ok := t.(*ast.IndexListExpr); ok {
				t = ixl.X
			}
			if id, ok := t.(*ast.Ident); ok {
				name = id.Name + "." + name
			}
		}
		key := r.pkgDir + ":" + name
		if !r.pointcuts[key] {
			continue
		}
		var out []ast.Stmt
		for i, st := range fd.Body.List {
			out = append(out, &ast.ExprStmt{X: r.call("Pointcut", &ast.BasicLit{Kind: token.STRING, Value: strconv.Quote(fmt.Sprintf("%s#%d", key, i))})})
			out = append(out, st)
		}
		// an end pointcut only where falling off the end is possible (a function with results
		// ends in a terminating statement, and a statement after it would break that)
		_, endsInReturn := fd.Body.List[len(fd.Body.List)-1].(*ast.ReturnStmt)
		if (fd.Type.Results == nil || len(fd.Type.Results.List) == 0) && !endsInReturn {
			out = append(out, &ast.ExprStmt{X: r.call("Pointcut", &ast.BasicLit{Kind: token.STRING, Value: strconv.Quote(fmt.Sprintf("%s#end", key))})})
		}
		// a trailing Point after a terminating statement would be unreachable but legal
		fd.Body.List = out
	}
}

func unparen(e ast.Expr) ast.Expr {
	for {
		p, ok := e.(*ast.ParenExpr)
		if !ok {
			return e
		}
		e = p.X
	}
}

func main() {
	if len(os.Args) != 2 {
		fatal("usage: inst config.json")
	}
	var cfg config
	b, err := os.ReadFile(os.Args[1])
	if err != nil {
		fatal("%v", err)
	}
	if err := json.Unmarshal(b, &cfg); err != nil {
		fatal("%v", err)
	}
	// the vshim packages must be visible while type-checking (pointcut hooks etc. are not needed for that)
	ovl := map[string][]byte{}
	for dst, src := range cfg.Base {
		c, err := os.ReadFile(src)
		if err != nil {
			fatal("%v", err)
		}
		ovl[dst] = c
	}
	var patterns []string
	for _, p := range cfg.Packages {
		patterns = append(patterns, "./"+p)
	}
	pcfg := &packages.Config{
		Mode:    packages.NeedName | packages.NeedFiles | packages.NeedCompiledGoFiles | packages.NeedSyntax | packages.NeedTypes | packages.NeedTypesInfo | packages.NeedImports,
		Dir:     cfg.Repo,
		Overlay: ovl,
		Env:     append(os.Environ(), "GOFLAGS=-mod=mod", "GOPROXY=off"),
	}
	pkgs, err := packages.Load(pcfg, patterns...)
	if err != nil {
		fatal("load: %v", err)
	}
	replace := map[string]string{}
	nerr := 0
	for _, p := range pkgs {
		for _, e := range p.Errors {
			fmt.Fprintln(os.Stderr, "inst: load error:", e)
			nerr++
		}
	}
	if nerr > 0 {
		os.Exit(2)
	}
	pcs := map[string]bool{}
	for _, pc := range cfg.Pointcuts {
		pcs[pc] = true
	}
	for _, p := range pkgs {
		rel, _ := filepath.Rel(cfg.Repo, filepath.Dir(p.GoFiles[0]))
		for i, f := range p.Syntax {
			path := p.CompiledGoFiles[i]
			if strings.HasSuffix(path, ".canoto.go") || strings.HasSuffix(path, "_test.go") {
				continue
			}
			r := &rewriter{fset: p.Fset, info: p.TypesInfo, pkg: p.Types, file: f, opts: cfg.Options, pointcuts: pcs, pkgDir: rel}
			changed := r.rewriteFile(f)
			if len(r.errs) > 0 {
				for _, e := range r.errs {
					fmt.Fprintln(os.Stderr, "inst:", e)
				}
				os.Exit(2)
			}
			if !changed {
				continue
			}
			var buf bytes.Buffer
			if err := format.Node(&buf, p.Fset, f); err != nil {
				fatal("print %s: %v", path, err)
			}
			out := filepath.Join(cfg.Out, rel, filepath.Base(path))
			if err := os.MkdirAll(filepath.Dir(out), 0o755); err != nil {
				fatal("%v", err)
			}
			if err := os.WriteFile(out, buf.Bytes(), 0o644); err != nil {
				fatal("%v", err)
			}
			replace[path] = out
		}
	}
	keys := make([]string, 0, len(replace))
	for k := range replace {
		keys = append(keys, k)
	}
	sort.Strings(keys)
	jb, _ := json.MarshalIndent(replace, "", " ")
	if err := os.WriteFile(filepath.Join(cfg.Out, "replace.json"), jb, 0o644); err != nil {
		fatal("%v", err)
	}
	fmt.Fprintf(os.Stderr, "inst: rewrote %d files in %d packages\n", len(replace), len(pkgs))
}
