#!/bin/bash
# Run once after a fresh restore, offline: warm the Go build cache for the harness.
set -e
cd "$(dirname "$0")"
export GOFLAGS=-mod=mod GOPROXY=off
unset GOTOOLCHAIN GOSUMDB
mkdir -p .work evidence replays
( cd harness && cat /repo/go.sum /repo/examples/morpheusvm/go.sum | sort -u > go.sum )
VERIF_TIER_OVERRIDE=quick VERIF_DEADLINE_S=1 true
# build every harness once (fills GOCACHE); failures here are not fatal for other checks
for d in harness/c*/; do
  id=$(basename "$d")
  VERIF_BUILD_ONLY=1 ./check "$id" quick >/dev/null 2>&1 || echo "setup: build of $id failed (will be reported by its check)"
done
echo setup done
